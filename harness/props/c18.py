"""C18 — a load that fails leaves no trace, and whatever loads is well-formed.

  implementation: ResourceSet.get_resource on truncated / corrupted XMI and JSON documents,
                  in a FRESH ResourceSet that knows the metamodel, under a watchdog
     <-> oracle   : raised  => no entry for that URI (key or value), earlier entries intact,
                               metamodel registries intact, previously loaded resources unchanged
                               (objects observed through the public API), asking again raises again
                    returned=> the model satisfies C01 (opposites symmetric), C02 (one owner,
                               eContainer/eContainmentFeature/eResource consistent), C03 (every value
                               conforms, every reference denotes an object), asking again returns the
                               same resource; a strictly truncated document never loads
                    never hangs (SIGALRM watchdog)
     <-> Coq model: Model/ResourceSet.v (registry machine): the nested get_resource calls are
                    traced by a ResourceSet subclass, turned into a load script, and the model's
                    outcome / registry (keys in insertion order, resource identities by creation
                    order) is compared with rset.resources after every top-level call
  Coq model <-> property: theorems of Props/C18.v (registry half; see its header).

Documents are produced by pyecore itself from generated models (main document + a second
document `ext` it cross-references + an unrelated `prior` document)."""
import base64
import copy
import json
import os
import signal
import tempfile
import time

from harness import common

PID = 'C18'
NS = 'http://verif/c18/lib'
XMI_NS = 'http://www.omg.org/XMI'
XSI_NS = 'http://www.w3.org/2001/XMLSchema-instance'

ATTR_KIND = {'name': 'str', 'n': 'int', 'flag': 'bool', 'ratio': 'float', 'col': 'enum', 'tags': 'str*',
             'nums': 'int*', 'extra': 'str', 'label': 'str', 'weight': 'int'}
REFS = {'peer', 'friends', 'friendOf', 'mate', 'mateOf', 'parent', 'holder'}
CONTS = {'kids': 'Node', 'one': 'Node', 'things': 'Thing'}


class Hang(BaseException):
    pass


def _alarm(signum, frame):
    raise Hang()


def watchdog(fn, seconds):
    old = signal.signal(signal.SIGALRM, _alarm)
    # re-fires every second after the limit: an alarm delivered inside a destructor is swallowed by Python
    signal.setitimer(signal.ITIMER_REAL, seconds, 1.0)
    try:
        return fn()
    finally:
        signal.setitimer(signal.ITIMER_REAL, 0)
        signal.signal(signal.SIGALRM, old)


# ----------------------------------------------------------------------------
# metamodel

def make_mm():
    common.use_repo()
    from pyecore.ecore import (EClass, EAttribute, EReference, EPackage, EEnum, EString, EInt, EBoolean, EFloat)
    pk = EPackage('lib', nsURI=NS, nsPrefix='lib')
    Color = EEnum('Color', literals=['RED', 'GREEN', 'BLUE'])
    Node = EClass('Node')
    Leaf = EClass('Leaf', superclass=(Node,))
    Thing = EClass('Thing')
    kids = EReference('kids', Node, upper=-1, containment=True)
    parent = EReference('parent', Node, eOpposite=kids)
    friends = EReference('friends', Node, upper=-1)
    friendOf = EReference('friendOf', Node, upper=-1, eOpposite=friends)
    mate = EReference('mate', Node)
    mateOf = EReference('mateOf', Node, eOpposite=mate)
    Node.eStructuralFeatures.extend([
        EAttribute('name', EString), EAttribute('n', EInt), EAttribute('flag', EBoolean),
        EAttribute('ratio', EFloat), EAttribute('col', Color),
        EAttribute('tags', EString, upper=-1), EAttribute('nums', EInt, upper=-1),
        kids, parent, EReference('one', Node, containment=True),
        EReference('things', Thing, upper=-1, containment=True),
        EReference('peer', Node), friends, friendOf, mate, mateOf])
    Leaf.eStructuralFeatures.append(EAttribute('extra', EString))
    Thing.eStructuralFeatures.extend([EAttribute('label', EString), EAttribute('weight', EInt),
                                      EReference('holder', Node)])
    pk.eClassifiers.extend([Node, Leaf, Thing, Color])
    return {'pk': pk, 'Node': Node, 'Leaf': Leaf, 'Thing': Thing, 'Color': Color}


WORDS = ['a', 'bo', 'two words', 'x<y&z', 'héllo', '0', 'true']


def gen_spec(rng, nmax):
    n = rng.randint(2, nmax)
    objs = []
    for i in range(n):
        o = {'cls': rng.choice(['Node', 'Node', 'Leaf']), 'parent': None, 'via': None, 'res': 'main', 'attrs': {},
             'peer': None, 'friends': [], 'mate': None, 'things': rng.choice([0, 0, 1, 2])}
        if i > 0 and rng.random() < 0.75:
            cands = list(range(i))
            rng.shuffle(cands)
            for p in cands:
                via = rng.choice(['kids', 'kids', 'one'])
                if via == 'one' and any(q['parent'] == p and q['via'] == 'one' for q in objs):
                    continue
                o['parent'], o['via'] = p, via
                break
        elif i > 0:
            o['res'] = rng.choice(['main', 'ext', 'ext'])
        a = o['attrs']
        a['name'] = rng.choice(WORDS)
        if rng.random() < 0.7:
            a['n'] = rng.choice([1, -7, 2 ** 33])
        if rng.random() < 0.5:
            a['flag'] = True
        if rng.random() < 0.4:
            a['ratio'] = rng.choice([1.5, -2.25])
        if rng.random() < 0.4:
            a['col'] = rng.choice(['GREEN', 'BLUE'])
        if rng.random() < 0.5:
            a['tags'] = [rng.choice(WORDS[:2] + ['c']) for _ in range(rng.randint(1, 3))]
        if rng.random() < 0.4:
            a['nums'] = [rng.choice([0, 5, -1]) for _ in range(rng.randint(1, 3))]
        if o['cls'] == 'Leaf' and rng.random() < 0.6:
            a['extra'] = 'more'
        objs.append(o)
    for i, o in enumerate(objs):
        j = i
        while objs[j]['parent'] is not None:
            j = objs[j]['parent']
        o['res'] = objs[j]['res']
    if not any(o['res'] == 'ext' for o in objs):
        objs.append({'cls': 'Node', 'parent': None, 'via': None, 'res': 'ext', 'attrs': {'name': 'outside'},
                     'peer': None, 'friends': [], 'mate': None, 'things': 0})
        n += 1
    mated = set()
    for i, o in enumerate(objs):
        if rng.random() < 0.6:
            o['peer'] = rng.randrange(n)
        if rng.random() < 0.6:
            o['friends'] = sorted(set(rng.randrange(n) for _ in range(rng.randint(1, 3))))
        if rng.random() < 0.3:
            m = rng.randrange(n)
            if m not in mated and i not in mated and m != i:
                o['mate'] = m
                mated.update([m, i])
    return {'objs': objs}


def build_and_save(spec, d, fmt, use_uuid):
    """Build the model of spec, save ext/main/prior into directory d, return their bytes."""
    from pyecore.resources import ResourceSet, URI
    from pyecore.resources.json import JsonResource
    mm = make_mm()
    rs = ResourceSet()
    rs.resource_factory['json'] = lambda uri, **kw: JsonResource(uri, **kw)
    res = {k: rs.create_resource(URI(os.path.join(d, f'{k}.{fmt}')), use_uuid=use_uuid) for k in ('ext', 'main', 'prior')}
    objs = []
    for o in spec['objs']:
        x = mm[o['cls']]()
        for k, v in o['attrs'].items():
            if isinstance(v, list):
                x.eGet(k).extend(v)
            elif k == 'col':
                x.col = mm['Color'].getEEnumLiteral(v)
            else:
                x.eSet(k, v)
        for t in range(o['things']):
            x.things.append(mm['Thing'](label=f't{t}', weight=t))
        objs.append(x)
    for i, o in enumerate(spec['objs']):
        if o['parent'] is not None:
            p = objs[o['parent']]
            if o['via'] == 'one':
                p.one = objs[i]
            else:
                p.kids.append(objs[i])
        else:
            res[o['res']].append(objs[i])
    for i, o in enumerate(spec['objs']):
        if o['peer'] is not None:
            objs[i].peer = objs[o['peer']]
        for f in o['friends']:
            objs[i].friends.append(objs[f])
        if o['mate'] is not None:
            objs[i].mate = objs[o['mate']]
    for x in objs:
        for t in x.things:
            t.holder = x
    p0 = mm['Node'](name='prior-root')
    p1 = mm['Leaf'](name='prior-kid', n=3)
    p0.kids.append(p1)
    p0.friends.append(p1)
    res['prior'].append(p0)
    for k in ('ext', 'main', 'ext', 'prior'):
        res[k].save()
    out = {}
    for k in ('ext', 'main', 'prior'):
        with open(res[k].uri.plain, 'rb') as f:
            out[f'{k}.{fmt}'] = f.read()
    return out


# ----------------------------------------------------------------------------
# corruptions

def xmi_frag(e, root, use_id):
    """fragment that denotes element e of the document (as pyecore writes them)."""
    if use_id and e.get(f'{{{XMI_NS}}}id'):
        return e.get(f'{{{XMI_NS}}}id')
    path = []
    while e is not root:
        p = e.getparent()
        same = [c for c in p if c.tag == e.tag]
        path.append(f'@{e.tag}' + (f'.{same.index(e)}' if e.tag != 'one' else ''))
        e = p
    return '//' + '/'.join(reversed(path)) if path else '/'


def xmi_corruptions(data):
    """Yield (kind, what, bytes) single-token corruptions of an XMI document."""
    from lxml import etree

    def fresh():
        root = etree.fromstring(data)
        return root, [root] + [e for e in root.iterdescendants() if isinstance(e.tag, str)]

    def ser(root):
        return etree.tostring(root, xml_declaration=True, encoding='UTF-8')
    root, els = fresh()
    use_id = root.get(f'{{{XMI_NS}}}id') is not None
    thing = next((e for e in els if e.tag == 'things'), None)
    thing_frag = xmi_frag(thing, root, use_id) if thing is not None else None
    plain = [(i, a) for i, e in enumerate(els) for a in e.attrib if not a.startswith('{')]
    for i, a in plain:
        r, es = fresh()
        v = es[i].attrib.pop(a)
        es[i].attrib['zz' + a] = v
        yield ('rename-reference' if a in REFS else 'rename-attribute'), \
            f'attribute {a} of element {i} ({"root" if i == 0 else "nested"}) renamed', ser(r)
        kind = ATTR_KIND.get(a)
        if kind in ('int', 'float', 'int*', 'enum', 'bool'):
            r, es = fresh()
            es[i].attrib[a] = 'notanumber' if kind != 'int*' else es[i].attrib[a] + ' x1'
            yield 'wrong-type', f'attribute {a} of element {i} set to a non-{kind}', ser(r)
        if a in REFS:
            # a `prefix:Type` qualifier (as save writes before the URI of a typed reference) whose URI token was
            # cut off: at the end, in the middle, alone
            toks0 = els[i].attrib[a].split()
            for cut in (toks0 + ['lib:Node'], toks0[:1] + ['lib:Node'] + toks0[1:] + ['lib:Leaf'], ['lib:Node'],
                        ['lib:Node', 'lib:Node'] + toks0):
                r, es = fresh()
                es[i].attrib[a] = ' '.join(cut)
                yield 'cut-qualified-ref', f'reference {a} of element {i} = {" ".join(cut)[:60]!r}', ser(r)
            for bad in ['//@kids.99', '//@nosuch.0', 'no-such-id', '/7', '//@kids.Spezial', '//sub/@kids.0'] \
                    + ([thing_frag] if thing_frag else []):
                r, es = fresh()
                toks = es[i].attrib[a].split()
                toks[0] = bad
                es[i].attrib[a] = ' '.join(toks)
                yield ('break-ref' if bad != thing_frag else 'retarget-ref'), \
                    f'reference {a} of element {i} -> {bad}', ser(r)
    for i, e in enumerate(els):
        if i == 0:
            continue
        r, es = fresh()
        t = es[i].tag
        es[i].tag = (t[:t.index('}') + 1] + 'zz' + t[t.index('}') + 1:]) if t.startswith('{') else 'zz' + t
        yield 'rename-element', f'element {i} <{e.tag}> renamed', ser(r)
        r, es = fresh()
        es[i].getparent().remove(es[i])
        yield 'remove-element', f'element {i} <{e.tag}> removed', ser(r)
        r, es = fresh()
        es[i].addnext(copy.deepcopy(es[i]))
        yield 'dup-element', f'element {i} <{e.tag}> duplicated', ser(r)
        if e.get('href') is None:
            for t in (('lib:Thing' if CONTS.get(e.tag) == 'Node' else 'lib:Node'), 'lib:Nope', 'nope:Node', 'lib:Color'):
                r, es = fresh()
                es[i].set(f'{{{XSI_NS}}}type', t)
                yield 'xsi-type', f'element {i} <{e.tag}> xsi:type={t}', ser(r)
        else:
            base = e.get('href').split('#')[0]
            for bad in ('missing.xmi#/', base + '#//@kids.99', base + '#no-such-id', '#//@kids.99', base,
                        base + '#//@kids.Spezial', base + '#//sub/@kids.0'):
                r, es = fresh()
                es[i].set('href', bad)
                yield 'break-href', f'element {i} <{e.tag}> href={bad}', ser(r)
        if e.get(f'{{{XMI_NS}}}id') is not None:
            other = next((x.get(f'{{{XMI_NS}}}id') for j, x in enumerate(els)
                          if j != i and x.get(f'{{{XMI_NS}}}id') is not None), None)
            if other is not None:
                r, es = fresh()
                es[i].set(f'{{{XMI_NS}}}id', other)
                yield 'dup-id', f'element {i} takes the id of another element', ser(r)
            r, es = fresh()
            del es[i].attrib[f'{{{XMI_NS}}}id']
            yield 'remove-id', f'element {i} loses its id', ser(r)
    for t in (f'{{{NS}}}Nope', '{http://nope}Node', f'{{{NS}}}Color', 'Node'):
        r, es = fresh()
        if es[0].tag == f'{{{XMI_NS}}}XMI':
            if len(es[0]) == 0:
                break
            es[0][0].tag = t
        else:
            es[0].tag = t
        yield 'xsi-type', f'root tag {t}', ser(r)


def json_corruptions(data):
    """Yield (kind, what, bytes) single-token corruptions of a JSON document."""
    doc = json.loads(data.decode('utf-8'))

    def nodes(v, path=()):
        yield path, v
        if isinstance(v, dict):
            for k in v:
                yield from nodes(v[k], path + (k,))
        elif isinstance(v, list):
            for i, x in enumerate(v):
                yield from nodes(x, path + (i,))

    def get(v, path):
        for p in path:
            v = v[p]
        return v

    def edit(path, fn):
        d = copy.deepcopy(doc)
        if not path:
            return fn(None, None, d)
        parent = get(d, path[:-1])
        fn(parent, path[-1], d)
        return d

    def ser(d):
        return json.dumps(d).encode('utf-8')
    root_uuid = doc.get('uuid') if isinstance(doc, dict) else None
    # the fragment of a Thing of this document (a well-formed reference of the WRONG type for every Node-typed
    # feature), as pyecore writes fragments: its uuid, or the containment path from its root
    thing_ref = None
    for path, v in nodes(doc):
        if path and isinstance(path[-1], int) and len(path) >= 2 and path[-2] == 'things' and isinstance(v, dict):
            if 'uuid' in v:
                thing_ref = v['uuid']
            else:
                segs, i, p = [], 0, list(path)
                root = ''
                if isinstance(doc, list):
                    root, p = '/%d' % p[0], p[1:]
                while i < len(p):
                    if i + 1 < len(p) and isinstance(p[i + 1], int):
                        segs.append('@%s.%d' % (p[i], p[i + 1]))
                        i += 2
                    else:
                        segs.append('@%s' % p[i])
                        i += 1
                thing_ref = (root or '/') + '/' + '/'.join(segs)
            break
    allnodes = list(nodes(doc))
    for path, v in allnodes:
        where = '/'.join(map(str, path)) or '<root>'
        if path and isinstance(path[-1], str):
            k = path[-1]

            def ren(parent, key, d):
                items = [(('zz' + kk) if kk == key else kk, vv) for kk, vv in parent.items()]
                parent.clear()
                parent.update(items)
            yield ('rename-attribute' if k in ATTR_KIND else 'rename-reference' if k in REFS or k == '$ref'
                   else 'rename-element' if k in CONTS else 'rename-feature'), \
                f'key {where} renamed', ser(edit(path, ren))
            yield 'remove-element', f'key {where} removed', ser(edit(path, lambda p, key, d: p.pop(key)))
            kind = ATTR_KIND.get(k)
            wrong = []
            if kind in ('int', 'float', 'enum'):
                wrong = ['notanumber', [1, 2], {'a': 1}]
            elif kind == 'bool':
                wrong = ['maybe', [True]]
            elif kind == 'str':
                wrong = [7, ['x'], {'a': 1}, None]
            elif kind in ('str*', 'int*'):
                wrong = [5, 'xy', [{'a': 1}], [None]] + ([['x1']] if kind == 'int*' else [[3]])
            elif k in CONTS or k in REFS:
                wrong = [5, 'xy', [5], None] + ([[v, v]] if isinstance(v, dict) else [v[0]] if isinstance(v, list) and v else [])
            for w in wrong:
                yield 'wrong-type', f'value at {where} replaced by {json.dumps(w)[:20]}', \
                    ser(edit(path, lambda p, key, d, w=w: p.__setitem__(key, w)))
            if k == 'eClass':
                for t in (NS + '#//Thing', NS + '#//Node', NS + '#//Nope', 'http://nope#//Node', NS + '#//Color', 'garbage'):
                    if t != v:
                        yield 'xsi-type', f'eClass at {where} = {t}', \
                            ser(edit(path, lambda p, key, d, t=t: p.__setitem__(key, t)))

            if k == '$ref':
                base = v.split('#')[0] if '#' in v else ''
                bads = ['//@kids.99', '//@nosuch.0', 'no-such-id', 'missing.json#/', '//@kids.Spezial', '//sub/@kids.0']
                if base:
                    bads += [base + '#//@kids.99', base + '#no-such-id', base]
                # a reference into the same document may be spelled with a leading '#' (legal, not what pyecore
                # writes): every local variant in both spellings
                bads += ['#' + b for b in bads if '#' not in b and not b.endswith('.json')]
                retargets = [thing_ref, '#' + thing_ref] if thing_ref and thing_ref != v \
                    and not str(path[-2] if len(path) > 1 else '') == 'holder' else []
                for bad in bads + retargets:
                    kind_ = 'retarget-ref' if bad in retargets else \
                        'break-ref' if bad.startswith('#') or '#' not in bad and bad != base else 'break-href'
                    yield kind_, f'$ref at {where} = {bad}', \
                        ser(edit(path, lambda p, key, d, bad=bad: p.__setitem__(key, bad)))
                if '#' not in v:
                    yield 'respell-ref', f"$ref at {where} spelled '#{v}'", \
                        ser(edit(path, lambda p, key, d: p.__setitem__(key, '#' + v)))
            if k == 'uuid' and root_uuid is not None and len(path) > 1:
                yield 'dup-id', f'uuid at {where} = uuid of the root', \
                    ser(edit(path, lambda p, key, d: p.__setitem__(key, root_uuid)))
        if isinstance(v, dict) and '$ref' not in v and (not path or path[-1] in CONTS or isinstance(path[-1], int)):
            # an object element: its type written as a syntactically valid URI that names an element which does
            # not exist (by-name index, positional index out of range, unknown sub-package, feature of a class);
            # the key is added where the document leaves it out
            base = v['eClass'].split('#')[0] if isinstance(v.get('eClass'), str) and '#' in v['eClass'] else NS

            def retype(t):
                d = copy.deepcopy(doc)
                node = get(d, path)
                items = [('eClass', t)] + [(kk, vv) for kk, vv in node.items() if kk != 'eClass']
                node.clear()
                node.update(items)
                return d
            for t in (base + '#//@eClassifiers.Spezial', base + '#//@eClassifiers.99', base + '#//sub/Node',
                      base + '#//Node/@eStructuralFeatures.nope'):
                yield 'missing-type-uri', f'eClass of the object at {where} = {t}', ser(retype(t))
        if path and isinstance(path[-1], str):
            pass
        elif path and isinstance(path[-1], int) and isinstance(v, (dict, list)):
            yield 'remove-element', f'list element {where} removed', ser(edit(path, lambda p, key, d: p.pop(key)))
            yield 'dup-element', f'list element {where} duplicated', \
                ser(edit(path, lambda p, key, d: p.insert(key, copy.deepcopy(p[key]))))
            yield 'wrong-type', f'list element {where} replaced by 5', \
                ser(edit(path, lambda p, key, d: p.__setitem__(key, 5)))
    yield 'wrong-type', 'document replaced by a number', b'5'
    yield 'wrong-type', 'document replaced by a string', b'"doc"'
    yield 'wrong-type', 'document wrapped in a list twice', ser([[doc]])
    yield 'dup-element', 'document duplicated as two roots', ser([doc, doc])


def zero_roots_document(fmt):
    """A legal document without any root: what pyecore writes once the only root of a resource is removed."""
    if fmt == 'json':
        return b'[]'
    return (b"<?xml version='1.0' encoding='UTF-8'?>\n"
            b'<xmi:XMI xmlns:xmi="http://www.omg.org/XMI" xmi:version="2.0"/>\n')


def expected_objects(fmt, data):
    """Number of elements of the document that denote an object of the resource (roots and the elements of the
    containment features, reference stubs excluded); None when the document is not of the expected form."""
    try:
        if fmt == 'json':
            doc = json.loads(data.decode('utf-8'))

            def count(d):
                if not isinstance(d, dict) or '$ref' in d:
                    return 0
                n = 1
                for k, v in d.items():
                    if k in CONTS:
                        n += sum(count(x) for x in v) if isinstance(v, list) else count(v)
                return n
            return sum(count(x) for x in doc) if isinstance(doc, list) else count(doc) if isinstance(doc, dict) else None
        from lxml import etree
        root = etree.fromstring(data)
        roots = list(root) if root.tag == f'{{{XMI_NS}}}XMI' else [root]

        def count(e):
            if not isinstance(e.tag, str) or e.get('href') is not None or e.get(f'{{{XSI_NS}}}nil') is not None:
                return 0
            return 1 + sum(count(c) for c in e if isinstance(c.tag, str) and c.tag in CONTS)
        return sum(count(e) for e in roots)
    except Exception:       # noqa: not a document of that form
        return None


# ----------------------------------------------------------------------------
# a ResourceSet that records the tree of get_resource calls (public API: subclassing)

def tracing_rset():
    from pyecore.resources import ResourceSet, URI
    from pyecore.resources.resource import URIConverter

    class TracingRS(ResourceSet):
        """Records the tree of get_resource calls and, for every TOP-LEVEL get_resource /
        remove_resource call, the content of rset.resources when it ends."""

        def __init__(self):
            super().__init__()
            self.trace_roots = []
            self.oplog = []          # ('get', node, items) | ('remove', resource, items) | ('create', resource, items)
            self._stack = []

        def get_resource(self, uri, options=None, **kwargs):
            u = URIConverter.convert(URI(uri)) if isinstance(uri, str) else uri
            node = {'norm': u.normalize(), 'hit': u.normalize() in self.resources, 'ok': None, 'children': [],
                    'resource': None}
            top = not self._stack
            (self._stack[-1]['children'] if self._stack else self.trace_roots).append(node)
            self._stack.append(node)
            try:
                r = super().get_resource(uri, options=options, **kwargs)
                node['ok'] = True
                node['resource'] = r
                return r
            except Exception:
                node['ok'] = False
                raise
            finally:
                self._stack.pop()
                if top:
                    self.oplog.append(('get', node, list(self.resources.items())))

        def remove_resource(self, resource):
            super().remove_resource(resource)
            if not self._stack:
                self.oplog.append(('remove', resource, list(self.resources.items())))

        def create_resource(self, uri, **kwargs):
            r = super().create_resource(uri, **kwargs)
            if not self._stack:         # asked for by the caller, not by get_resource
                self.oplog.append(('create', r, list(self.resources.items())))
            return r
    return TracingRS()


# ----------------------------------------------------------------------------
# observation of loaded resources and the C01-C03 oracles

def unwrap(v):
    from pyecore.ecore import EProxy
    if type(v) is EProxy:
        return v._wrapped if v.resolved else v
    return v


def closure(resource):
    out, seen = [], set()
    stack = list(reversed(list(resource.contents)))
    while stack:
        o = unwrap(stack.pop())
        if id(o) in seen:
            continue
        seen.add(id(o))
        out.append(o)
        from pyecore.ecore import EProxy
        if type(o) is EProxy:
            continue
        kids = []
        # by feature name: eAllReferences() is a set, and every load of lib.ecore brings its own metamodel
        for f in sorted(o.eClass.eAllReferences(), key=lambda f: f.name):
            if f.containment and not f.derived:
                v = o.eGet(f)
                kids += list(v) if f.many else ([v] if v is not None else [])
        stack.extend(reversed(kids))
    return out


def label_table(resources):
    tab = {}
    for ri, r in enumerate(resources):
        for oi, o in enumerate(closure(r)):
            tab.setdefault(id(o), (ri, oi))
    return tab


def dump_resource(r, tab):
    """Public observations of every object of r; other objects named through tab."""
    from pyecore.ecore import EProxy

    def name(v):
        v = unwrap(v)
        if v is None:
            return None
        if type(v) is EProxy:
            return ('unresolved-proxy',)
        return tab.get(id(v), ('unknown-object', v.eClass.name, getattr(v, 'name', None)))
    out = []
    for o in closure(r):
        if type(o) is EProxy:
            out.append(('unresolved-proxy',))
            continue
        feats = []
        for f in sorted(o.eClass.eAllStructuralFeatures(), key=lambda f: f.name):
            if f.derived:
                continue
            v = o.eGet(f)
            if f.is_reference:
                feats.append((f.name, [name(x) for x in v] if f.many else name(v)))
            else:
                feats.append((f.name, [repr(x) for x in v] if f.many else repr(v)))
        c = o.eContainer()
        out.append((o.eClass.name, feats, name(c), name(o) if False else None,
                    None if o.eResource is None else (o.eResource is r)))
    return out


def wellformed(resource):
    """C01-C03 on a loaded resource -> list of (clause, message)."""
    from pyecore.ecore import EProxy, EEnum, EDataType
    problems = []
    objs = closure(resource)
    owners = {}
    for o in objs:
        if type(o) is EProxy:
            try:
                o.force_resolve()
            except Exception as e:
                problems.append(('dangling-proxy', f'contained proxy cannot be resolved: {type(e).__name__}'))
            continue
        for f in o.eClass.eAllStructuralFeatures():
            if f.derived:
                continue
            v = o.eGet(f)
            vals = list(v) if f.many else ([v] if v is not None else [])
            if f.many and any(x is None for x in vals):
                # None inside a many-valued ATTRIBUTE is written and read by xmi.py on purpose and is
                # not counted as a C03 violation (DESIGN.md appendix D); inside a reference it is
                if f.is_reference:
                    problems.append(('C03', f'None inside {o.eClass.name}.{f.name}'))
                vals = [x for x in vals if x is not None]
            if f.is_attribute:
                t = f.eType
                for x in vals:
                    ok = (x in t) if isinstance(t, EEnum) else isinstance(x, t.eType) if isinstance(t, EDataType) and t.eType else True
                    if not ok:
                        problems.append(('C03', f'{o.eClass.name}.{f.name} holds {x!r} ({type(x).__name__})'))
                continue
            for x in vals:
                if type(x) is EProxy and not x.resolved:
                    try:
                        x.force_resolve()
                    except Exception as e:
                        problems.append(('dangling-proxy', f'{o.eClass.name}.{f.name} holds a proxy that cannot be '
                                                           f'resolved ({type(e).__name__})'))
                        continue
                y = unwrap(x)
                if not isinstance(y, f.eType):
                    problems.append(('C03', f'{o.eClass.name}.{f.name} holds a {getattr(getattr(y, "eClass", None), "name", type(y).__name__)}'))
                    continue
                if f.containment:
                    owners.setdefault(id(y), []).append((o, f))
                    if unwrap(y.eContainer()) is not o or y.eContainmentFeature() is not f:
                        problems.append(('C02', f'child in {o.eClass.name}.{f.name}: eContainer/eContainmentFeature disagree'))
                    if y.eResource is not o.eResource:
                        problems.append(('C02', f'child in {o.eClass.name}.{f.name}: eResource differs from its container\'s'))
                opp = f.eOpposite
                if opp is not None:
                    try:
                        back = y.eGet(opp)
                    except Exception as e:
                        problems.append(('C01', f'opposite {opp.name} unreadable: {type(e).__name__}'))
                        continue
                    backs = [unwrap(b) for b in back] if opp.many else ([unwrap(back)] if back is not None else [])
                    if not any(b is o for b in backs):
                        problems.append(('C01', f'{o.eClass.name}.{f.name} -> target, but target.{opp.name} does not point back'))
    for oid, lst in owners.items():
        if len(lst) > 1:
            problems.append(('C02', f'object owned {len(lst)} times: ' + ', '.join(f'{a.eClass.name}.{f.name}' for a, f in lst)))
    roots = [unwrap(x) for x in resource.contents]
    for x in roots:
        if type(x) is EProxy:
            continue
        if x.eContainer() is not None or x.eResource is not resource or id(x) in owners:
            problems.append(('C02', 'root with a container / foreign eResource'))
    if len(set(map(id, roots))) != len(roots):
        problems.append(('C02', 'root listed twice'))
    return problems


# ----------------------------------------------------------------------------
# documents whose metamodel is reachable ONLY through a location written in the document

def ecore_document(scratch):
    """lib.ecore: the metamodel saved as a sibling document (a fresh copy, never registered anywhere)."""
    from pyecore.resources import ResourceSet, URI
    with tempfile.TemporaryDirectory(dir=scratch) as d:
        rs = ResourceSet()
        r = rs.create_resource(URI(os.path.join(d, 'lib.ecore')))
        r.append(make_mm()['pk'])
        r.save()
        with open(os.path.join(d, 'lib.ecore'), 'rb') as f:
            return f.read()


def with_location(fmt, data):
    """XMI: xsi:schemaLocation="<nsURI> lib.ecore" on the root; JSON: every eClass given as lib.ecore#//Name."""
    if fmt == 'json':
        return data.replace(('"' + NS + '#//').encode(), b'"lib.ecore#//')
    i = data.index(b' xmlns:')
    data = data[:i] + f' xsi:schemaLocation="{NS} lib.ecore"'.encode() + data[i:]
    if b'xmlns:xsi=' not in data:
        data = data.replace(b' xmlns:xmi=', f' xmlns:xsi="{XSI_NS}" xmlns:xmi='.encode(), 1)
    return data


# ----------------------------------------------------------------------------
# one attempt

class Env:
    """A directory holding the intact documents of one (spec, format, uuid)."""

    def __init__(self, d, fmt, files, mm, register_mm=True, probes=None):
        self.d, self.fmt, self.files, self.mm = d, fmt, files, mm
        self.register_mm = register_mm  # False: the metamodel is reachable only through the documents themselves
        self.probes = probes or {}      # name -> bytes: documents that must be answered as in a fresh ResourceSet
        self.asks = 0                   # rotates the spellings used for the two asks of an attempt
        self.baselines = {}
        self.restore = {}       # documents to put back intact before the follow-up reload
        for k, v in files.items():
            with open(os.path.join(d, k), 'wb') as f:
                f.write(v)

    def path(self, name):
        return os.path.join(self.d, name)


SPELLINGS = ['canonical', 'dotdot', 'double-slash', 'dot', 'relative']
# pairs (first ask, second ask): the same non-canonical spelling twice, two different ones, canonical first or last
SPELLING_PAIRS = [(0, 0), (1, 1), (0, 1), (2, 0), (1, 2), (4, 3), (3, 4), (0, 0)]


def spelled(env, name, how):
    """Another spelling of the path of document `name`; every spelling normalises to the same absolute path."""
    d = env.d
    if how == 1:
        os.makedirs(os.path.join(d, 'sub'), exist_ok=True)
        return os.path.join(d, 'sub', '..', name)
    if how == 2:
        return d + os.sep + os.sep + name
    if how == 3:
        return os.path.join(d, '.', name)
    if how == 4:
        return os.path.relpath(os.path.join(d, name))
    return os.path.join(d, name)


def new_rset(env):
    from pyecore.resources.json import JsonResource
    rs = tracing_rset()
    rs.resource_factory['json'] = lambda uri, **kw: JsonResource(uri, **kw)
    if env.register_mm:
        rs.metamodel_registry[NS] = env.mm['pk']
    return rs


def snapshot(rs):
    """Every registry of the resource set and of the module, plus the public tables of the registered resources."""
    from pyecore.resources import resource as R
    uniq = []
    for v in rs.resources.values():
        if not any(v is x for x in uniq):
            uniq.append(v)
    return {'resources': list(rs.resources.items()),
            'mm_local': list(rs.metamodel_registry.maps[0].items()),
            'mm_global': list(R.global_registry.items()),
            'tables': {
                'rset.resource_factory': list(rs.resource_factory.items()),
                'ResourceSet.resource_factory': list(R.ResourceSet.resource_factory.items()),
                'rset.uri_mapper': list(rs.uri_mapper.maps[0].items()),
                'global_uri_mapper': list(R.global_uri_mapper.items()),
                'rset.uri_converter': list(enumerate(rs.uri_converter)),
                'global_uri_converter': list(enumerate(R.global_uri_converter)),
                'Resource.decoders': list(enumerate(R.Resource.decoders))},
            'per_resource': [(v, sorted(map(str, getattr(v, 'uuid_dict', {}))),
                              [id(x) for x in getattr(v, 'uuid_dict', {}).values()],
                              sorted(map(str, getattr(v, 'prefixes', {}).items())),
                              len(getattr(v, 'decoders', [])), len(getattr(v, 'contents', [])))
                             for v in uniq]}


def other_tables_changed(before, after):
    """-> description of the first registry (other than resources / metamodel registries) that differs."""
    for name, items in before['tables'].items():
        if not same_items(items, after['tables'][name]):
            return f'{name}: {len(items)} -> {len(after["tables"][name])} entries (or rebound)'
    now = {id(t[0]): t for t in after['per_resource']}
    for t in before['per_resource']:
        a = now.get(id(t[0]))
        if a is not None and t[1:] != a[1:]:
            what = ['uuid_dict keys', 'uuid_dict values', 'prefixes', 'decoders', 'contents']
            k = next(i for i in range(5) if t[1 + i] != a[1 + i])
            return f'{what[k]} of previously loaded {os.path.basename(t[0].uri.normalize())}'
    return None


def same_items(a, b):
    return len(a) == len(b) and all(k1 == k2 and v1 is v2 for (k1, v1), (k2, v2) in zip(a, b))


def script_tokens(node, intern, prefix=''):
    """<script> of Model/ResourceSet.v from a trace node (children = nested get_resource calls).
    A request = (original uri string, that string normalised against the requester, uri actually loaded).
    All documents of a case live in one directory: the original string is the basename of what was loaded
    (prefix = the mapped URI prefix the documents use instead of a relative path, if any)."""
    toks = [len(node['children'])]
    here = os.path.dirname(node['norm'])
    for c in node['children']:
        orig = prefix + os.path.basename(c['norm'])
        onorm = os.path.abspath(os.path.join(here, orig))
        toks += [intern(orig), intern(onorm), intern(c['norm'])] + script_tokens(c, intern, prefix)
    toks.append(1 if node['ok'] else 0)
    return toks


def attempt(env, target, data, priors, timeout, model=None, follow=False, restore=None):
    """Write `data` as document `target`, load the priors, then ask for target twice.
    follow: after a failure, load the INTACT document again (same ResourceSet, then a fresh one) and compare
    with a load made before any failure; restore = other documents to put back intact before that.
    -> dict(outcome, problems=[(clause, msg[, qualifier])], corr=None|str)"""
    restore = restore if restore is not None else env.restore
    key = (target, tuple(priors))
    if follow and key not in env.baselines:
        # how the intact document loads when nothing has failed (computed BEFORE the failing attempt)
        for name, content in dict(restore or {}, **{target: env.files.get(target, env.files[f'main.{env.fmt}'])}).items():
            with open(env.path(name), 'wb') as f:
                f.write(content)
        env.baselines[key] = intact_load(env, new_rset(env), target, priors, timeout, True)
        for name in env.probes:
            env.baselines[('probe', name, tuple(priors))] = probe_load(env, new_rset(env), name, priors, timeout, True)
        for name in (restore or {}):
            with open(env.path(name), 'wb') as f:
                f.write(env.files[name])
    with open(env.path(target), 'wb') as f:
        f.write(data)
    try:
        r = _attempt(env, target, priors, timeout, model, follow, restore or {})
        if any(p[0] == 'hang' for p in r['problems']):
            # a watchdog that fires on a loaded machine is not a hang: the whole attempt is redone in a
            # fresh ResourceSet with a much longer limit, and only a second time-out is reported
            with open(env.path(target), 'wb') as f:
                f.write(data)
            for name in (restore or {}):
                with open(env.path(name), 'wb') as f:
                    f.write(env.files[name])
            r = _attempt(env, target, priors, timeout * 4, model, follow, restore or {})
            r['retried_after_timeout'] = True
        return r
    finally:
        if target in env.files:         # the other scenarios need the intact document back
            with open(env.path(target), 'wb') as f:
                f.write(env.files[target])
        elif os.path.exists(env.path(target)):
            os.remove(env.path(target))


def canon_dump(rs, r):
    """Dump of resource r that can be compared between two ResourceSets: objects are named by
    (document name, position in that document); proxies are resolved first (r comes from an intact document)."""
    from pyecore.ecore import EProxy
    for o in closure(r):
        if type(o) is EProxy:
            continue
        for f in o.eClass.eAllReferences():
            if f.derived:
                continue
            v = o.eGet(f)
            for x in (list(v) if f.many else [v]):
                if type(x) is EProxy and not x.resolved:
                    try:
                        x.force_resolve()
                    except Exception:       # noqa: reported by wellformed()
                        pass
    resources = []
    for v in rs.resources.values():
        if not any(v is x for x in resources):
            resources.append(v)
    tab = {}
    for x in resources:
        name = os.path.basename(x.uri.normalize())
        for oi, o in enumerate(closure(x)):
            tab.setdefault(id(o), (name, oi))
    return dump_resource(r, tab)


def intact_load(env, rs, target, priors, timeout, load_priors):
    """-> (outcome, dump or exception class, wellformedness problems, foreign objects?)"""
    from pyecore.resources import URI
    try:
        if load_priors:
            for p in priors:
                watchdog(lambda p=p: rs.get_resource(URI(env.path(p))), timeout)
        r = watchdog(lambda: rs.get_resource(URI(env.path(target))), timeout)
    except Hang:
        return ('hang', None, [], False)
    except Exception as e:
        return ('raised', type(e).__name__, [], False)
    try:
        wf = sorted(set(p[0] for p in watchdog(lambda: wellformed(r), timeout * 2)))
        dump = watchdog(lambda: canon_dump(rs, r), timeout * 2)
    except Hang:
        return ('hang', None, [], False)
    foreign = any(getattr(unwrap(o), 'eResource', r) is not r for o in closure(r))
    return ('returned', dump, wf, foreign)


def _unordered_opposites(dump):
    out = []
    for o in dump:
        if len(o) < 2 or not isinstance(o[1], list):
            out.append(o)
            continue
        feats = [(n, sorted(v, key=repr)) if n in ('friends', 'friendOf') and isinstance(v, list) else (n, v)
                 for n, v in o[1]]
        out.append((o[0], feats) + tuple(o[2:]))
    return out


def probe_load(env, rs, name, priors, timeout, load_priors):
    """outcome class of asking rs for probe document `name` -> 'returned' | 'raised:<Exception>' | 'hang'"""
    from pyecore.resources import URI
    with open(env.path(name), 'wb') as f:
        f.write(env.probes[name])
    try:
        if load_priors:
            for p in priors:
                watchdog(lambda p=p: rs.get_resource(URI(env.path(p))), timeout)
        watchdog(lambda: rs.get_resource(URI(env.path(name))), timeout)
        return 'returned'
    except Hang:
        return 'hang'
    except Exception as e:
        return 'raised:' + type(e).__name__
    finally:
        os.remove(env.path(name))


def follow_up(env, rs, target, priors, timeout, restored=()):
    """After a failed load: the intact document, in the same ResourceSet and in a fresh one, must load as it
    does in a ResourceSet that never saw a failure."""
    intact = env.files.get(target, env.files[f'main.{env.fmt}'])
    with open(env.path(target), 'wb') as f:
        f.write(intact)
    base = env.baselines[(target, tuple(priors))]
    probs = []
    from pyecore.resources import URI
    for name in sorted(env.probes):
        pbase = env.baselines[('probe', name, tuple(priors))]
        for where, rs_, load_priors in (('same-rset', rs, False), ('fresh-rset', new_rset(env), True)):
            got = probe_load(env, rs_, name, priors, timeout, load_priors)
            if got != pbase:
                probs.append(('later-load-affected', f'after a failed load, document {name} (no metamodel location) is '
                              f'answered {got} in the {where}; a resource set without that failure answers {pbase}',
                              where))
    # a restored document that loaded successfully on the way is still registered (by design) with its
    # previous content: reloading in the same ResourceSet would not read the intact file
    stale = any(URI(env.path(name)).normalize() in rs.resources for name in (restored or ()))
    for where, rs_, load_priors in (('same-rset', rs, False), ('fresh-rset', new_rset(env), True)):
        if where == 'same-rset' and stale:
            continue
        got = intact_load(env, rs_, target, priors, timeout, load_priors)
        if got[0] == 'hang':
            probs.append(('hang', f'loading the intact document after a failed load hangs ({where})'))
        elif got[0] != base[0]:
            probs.append(('later-load-affected', f'after a failed load the intact document {got[0]} '
                          f'({got[1] if got[0] == "raised" else "a resource"}) in the {where}; without a previous failure it '
                          f'{base[0]}', where))
        elif got[0] == 'returned':
            # in the same ResourceSet the cross-referenced documents are already loaded (left by the nested
            # autoloads of the failed attempt), and the ORDER of a many-valued bidirectional reference depends
            # on which of its two documents was loaded first: compared as multisets there, exactly otherwise
            norm = _unordered_opposites if where == 'same-rset' else (lambda d: d)
            if norm(got[1]) != norm(base[1]):
                probs.append(('later-load-affected', f'after a failed load the intact document loads differently in the '
                              f'{where}: ' + _first_dump_diff([norm(base[1])], [norm(got[1])]), where))
            elif set(got[2]) - set(base[2]):
                probs.append(('later-load-affected', f'after a failed load the intact document loads ill-formed in the '
                              f'{where}: {sorted(set(got[2]) - set(base[2]))}', where))
            elif got[3] and not base[3]:
                probs.append(('later-load-affected', f'after a failed load the intact document holds objects of another '
                              f'resource ({where})', where))
    return probs


def _attempt(env, target, priors, timeout, model, follow=False, restore=None):
    from pyecore.resources import URI
    rs = new_rset(env)
    res = {'outcome': None, 'problems': [], 'corr': None, 'setup_failed': False, 'nested': 0}
    try:
        prior_res = [watchdog(lambda p=p: rs.get_resource(URI(env.path(p))), timeout) for p in priors]
    except Hang:
        res['setup_failed'] = True
        res['problems'].append(('hang', 'loading an intact prior document hangs'))
        return res
    except Exception:
        res['setup_failed'] = True          # the priors are other attempts' business
        return res
    before = snapshot(rs)
    loaded_before = []
    for _, r in before['resources']:
        if not any(r is x for x in loaded_before):
            loaded_before.append(r)
    tab = label_table(loaded_before)
    dumps_before = [dump_resource(r, tab) for r in loaded_before]
    uri = URI(env.path(target))
    norm = uri.normalize()
    n_roots_before = len(rs.trace_roots)
    probs = res['problems']

    env.asks += 1
    sp1, sp2 = SPELLING_PAIRS[env.asks % len(SPELLING_PAIRS)]
    res['spellings'] = (SPELLINGS[sp1], SPELLINGS[sp2])

    def ask(how=0):
        try:
            return ('returned', watchdog(lambda: rs.get_resource(URI(spelled(env, target, how))), timeout))
        except Hang:
            return ('hang', None)
        except Exception as e:
            return ('raised', type(e).__name__)
    out1, val1 = ask(sp1)
    after1 = snapshot(rs)
    res['outcome'] = out1
    if out1 == 'hang':
        probs.append(('hang', f'get_resource did not return within {timeout}s'))
        return res
    if out1 == 'raised':
        if any(k == norm for k, _ in after1['resources']):
            probs.append(('registry-entry-left', 'the failed URI is still a key of rset.resources'))
        for k, v in after1['resources']:
            if getattr(getattr(v, 'uri', None), 'normalize', lambda: None)() == norm:
                probs.append(('registry-entry-left', f'key {os.path.basename(k)!r} is bound to the resource of the failed URI'))
                break
        if not same_items(before['resources'], after1['resources'][:len(before['resources'])]):
            probs.append(('registry-changed', 'an earlier entry of rset.resources changed'))
        if not same_items(before['mm_local'], after1['mm_local']) or not same_items(before['mm_global'], after1['mm_global']):
            added = [k for k, _ in after1['mm_local'] if k not in dict(before['mm_local'])]
            probs.append(('metamodel-registry-changed', 'metamodel_registry / global_registry changed'
                          + (f': new local entries {added}' if added else '')))
        other = other_tables_changed(before, after1)
        if other:
            probs.append(('other-registry-changed', 'a registry changed during the failed load: ' + other))
        dumps_after = [dump_resource(r, tab) for r in loaded_before]
        if dumps_after != dumps_before:
            probs.append(('prior-resource-changed', 'objects of a previously loaded resource changed: '
                          + _first_dump_diff(dumps_before, dumps_after), _diff_qualifier(dumps_before, dumps_after)))
    else:
        r = val1
        # "raises, or loads a model that contains every element of the document"
        with open(env.path(target), 'rb') as f:
            exp = expected_objects(env.fmt, f.read())
        from pyecore.ecore import EProxy
        got_n = sum(1 for o in closure(r) if type(o) is not EProxy)
        if exp is not None and got_n < exp:
            probs.append(('half-built', f'the document has {exp} object elements, the loaded resource holds {got_n} '
                          'objects: elements were dropped silently'))
        if rs.resources.get(norm) is not r:
            probs.append(('registry-changed', 'the returned resource is not registered under its normalised URI'))
        if not same_items(before['resources'], after1['resources'][:len(before['resources'])]):
            probs.append(('registry-changed', 'an earlier entry of rset.resources changed'))
    # asking again, possibly under another spelling of the same path; a document that LOADED may have been
    # truncated in between: the registered resource is the answer, the file is not read again
    truncated = out1 == 'returned' and env.asks % 2 == 0
    if truncated:
        with open(env.path(target), 'rb') as f:
            whole = f.read()
        with open(env.path(target), 'wb') as f:
            f.write(whole[:len(whole) // 2])
    out2, val2 = ask(sp2)
    if truncated:
        with open(env.path(target), 'wb') as f:
            f.write(whole)
    after2 = snapshot(rs)
    if out2 == 'hang':
        probs.append(('hang', 'second get_resource did not return'))
    elif out1 == 'returned':
        if out2 != 'returned' or val2 is not val1:
            probs.append(('not-same-resource', f'asking again (path spelled {SPELLINGS[sp1]}, then {SPELLINGS[sp2]}'
                          + (', file truncated in between' if truncated else '') + f'): {out2} '
                          f'{"another resource" if out2 == "returned" else val2}'))
        if not same_items(after1['resources'], after2['resources']):
            probs.append(('not-same-resource', 'asking again changed rset.resources'))
    else:
        if out2 == 'returned':
            probs.append(('second-call-differs', 'asking again for a document that failed to load returned a resource'))
        if any(k == norm for k, _ in after2['resources']):
            probs.append(('registry-entry-left', 'after the second failure the URI is a key of rset.resources'))
    # correspondence with the registry machine
    if model is not None:
        res['corr'] = compare_with_model(rs, model, res)
    res['nested'] = sum(_count(n) for n in rs.trace_roots[n_roots_before:]) - (len(rs.trace_roots) - n_roots_before)
    if follow and out1 == 'raised' and out2 != 'hang':
        for name, content in (restore or {}).items():
            with open(env.path(name), 'wb') as f:
                f.write(content)
        probs += follow_up(env, rs, target, priors, timeout, list(restore or {}))
        res['followed'] = True
    # well-formedness of what loaded (may resolve proxies, hence after the registry checks)
    if out1 == 'returned':
        try:
            probs += watchdog(lambda: wellformed(val1), timeout * 2)
        except Hang:
            probs.append(('hang', 'reading the loaded model hangs'))
    return res


OPPOSITE_ENDS = {'kids', 'parent', 'friends', 'friendOf', 'mate', 'mateOf'}


def _diff_qualifier(a, b):
    """'opposite-end-only' when the only features that differ are ends of bidirectional references
    (a link made, or stolen, by the objects of the resource that was then discarded)."""
    names = set()
    for x, y in zip(a, b):
        if len(x) != len(y):
            return 'other'
        for p, q in zip(x, y):
            if p == q:
                continue
            if p[0] != q[0] or p[2:] != q[2:]:
                return 'other'
            names |= {fp[0] for fp, fq in zip(p[1], q[1]) if fp != fq}
    return 'opposite-end-only' if names and names <= OPPOSITE_ENDS else 'other'


def _count(n):
    return 1 + sum(_count(c) for c in n['children'])


def _first_dump_diff(a, b):
    for ri, (x, y) in enumerate(zip(a, b)):
        for oi, (p, q) in enumerate(zip(x, y)):
            if p != q:
                for fp, fq in zip(p[1], q[1]):
                    if fp != fq:
                        return f'resource {ri} object {oi} ({p[0]}) feature {fp[0]}: {fp[1]} -> {fq[1]}'
                return f'resource {ri} object {oi}: {p} -> {q}'
        if len(x) != len(y):
            return f'resource {ri}: {len(x)} -> {len(y)} objects'
    return '?'


def compare_with_model(rs, model, res=None):
    """Replay the logged top-level calls on the registry machine (Model/ResourceSet.v); compare the
    outcome, the identity of the returned resource and the whole registry after EVERY call."""
    keys = {}

    def intern(s):
        return keys.setdefault(s, len(keys) + 1)
    # creation order of resources = order of the non-hit trace nodes (pre-order over all calls)
    rid_of_node, counter = {}, [0]

    def number(n):
        if not n['hit']:
            rid_of_node[id(n)] = counter[0]
            counter[0] += 1
        for c in n['children']:
            number(c)
    rid = {}            # id(resource object) -> rid

    def collect(n):
        if n['resource'] is not None and id(n) in rid_of_node:
            rid[id(n['resource'])] = rid_of_node[id(n)]
        for c in n['children']:
            collect(c)
    for op in rs.oplog:
        if op[0] == 'get':
            number(op[1])
            collect(op[1])
        elif op[0] == 'create':
            rid[id(op[1])] = counter[0]
            counter[0] += 1

    def failed_rid(v):
        u = getattr(getattr(v, 'uri', None), 'normalize', lambda: None)()
        found = []

        def look(n):
            if n['norm'] == u and n['ok'] is False and id(n) in rid_of_node:
                found.append(rid_of_node[id(n)])
            for c in n['children']:
                look(c)
        for n in rs.trace_roots:
            look(n)
        return found[-1] if found else -999
    toks = []
    for op in rs.oplog:
        if op[0] == 'get':
            toks += [2, intern(op[1]['norm'])] + script_tokens(op[1], intern, getattr(rs, 'href_prefix', ''))
        elif op[0] == 'create':
            toks += [1, intern(op[1].uri.normalize())]
        else:
            toks += [3, rid.get(id(op[1]), -999)]
    ans = model.ask('rset', toks)
    inv = None
    pos = 0
    for k, op in enumerate(rs.oplog):
        if pos + 3 > len(ans):
            return f'model answer too short at call {k}: {ans[:40]}'
        oc, r, cnt = ans[pos], ans[pos + 1], ans[pos + 2]
        reg = [(ans[pos + 3 + 2 * i], ans[pos + 4 + 2 * i]) for i in range(cnt)]
        pos += 3 + 2 * cnt
        if op[0] == 'get':
            n = op[1]
            want_oc = 0 if n['ok'] else 1
            if oc != want_oc:
                return f'call {k} get_resource({os.path.basename(n["norm"])}): outcome model {oc} impl {want_oc}'
            if n['ok'] and rid.get(id(n['resource'])) != r:
                return (f'call {k} get_resource({os.path.basename(n["norm"])}): model returns resource {r}, '
                        f'impl resource {rid.get(id(n["resource"]))}')
        if op[0] == 'create' and rid.get(id(op[1])) != r:
            return f'call {k} create_resource: model names the resource {r}, impl {rid.get(id(op[1]))}'
        impl_reg = [(intern(kk), rid.get(id(v), failed_rid(v))) for kk, v in op[2]]
        if impl_reg != reg:
            inv = {v: kk for kk, v in keys.items()}
            what = 'get_resource(' + os.path.basename(op[1]['norm']) + ')' if op[0] == 'get' else op[0] + '_resource'
            return (f'registry after call {k} {what}: model '
                    + str([(os.path.basename(inv.get(a, '?')), b) for a, b in reg])
                    + ' impl ' + str([(os.path.basename(inv.get(a, '?')), b) for a, b in impl_reg]))
    return None


MAPPED = 'http://docs.verif/c18/'


def registry_scenario(env, model, rng, timeout, mapped=False):
    """Intact documents only: loads with nested autoloads and alias entries, interleaved with
    remove_resource, every call compared with the registry machine.  -> (n_calls, problems, corr)"""
    from pyecore.resources import URI
    fmt = env.fmt
    rs = new_rset(env)
    written = [f'm2.{fmt}']
    if mapped:
        # the same documents with every cross-document reference written through a mapped URI
        # (rset.uri_mapper): the one situation in which _try_resource_autoload keeps an alias key
        rs.uri_mapper[MAPPED] = env.d + os.sep
        rs.href_prefix = MAPPED
        for k in (f'main.{fmt}', f'ext.{fmt}'):
            doc = env.files[k]
            for other in (f'main.{fmt}', f'ext.{fmt}'):
                doc = doc.replace(b'"' + other.encode() + b'#', b'"' + MAPPED.encode() + other.encode() + b'#')
            with open(env.path(k), 'wb') as f:
                f.write(doc)
            written.append(k)
    with open(env.path(f'm2.{fmt}'), 'wb') as f:
        f.write(open(env.path(f'main.{fmt}'), 'rb').read())
    problems = []
    with open(env.path(f'empty.{fmt}'), 'wb') as f:
        f.write(zero_roots_document(fmt))
    written.append(f'empty.{fmt}')
    names = [f'prior.{fmt}', f'm2.{fmt}', f'ext.{fmt}', f'main.{fmt}', f'absent.{fmt}', f'empty.{fmt}', f'empty.{fmt}',
             f'created.{fmt}']
    try:
        for step in range(12):
            if step % 4 == 1:
                # a resource that is only created (a save target): asking for it must return it, not read a file
                name = rng.choice([f'created.{fmt}', f'absent.{fmt}', f'empty.{fmt}', f'prior.{fmt}'])
                rs.create_resource(URI(env.path(name)))
            elif step % 3 == 2 and rs.resources:
                vals = list(rs.resources.values())
                # prefer a resource that owns an alias key
                multi = [v for v in vals if sum(1 for w in vals if w is v) > 1]
                victim = rng.choice(multi or vals)
                rs.remove_resource(victim)
                if any(v is victim for v in rs.resources.values()):
                    problems.append(('remove-left-entry', 'remove_resource left a key bound to the removed resource'))
            else:
                name = rng.choice(names)
                registered = rs.resources.get(URI(env.path(name)).normalize())
                how = rng.randrange(len(SPELLINGS))
                try:
                    got = watchdog(lambda: rs.get_resource(URI(spelled(env, name, how))), timeout)
                    if registered is not None and got is not registered:
                        problems.append(('not-same-resource', f'get_resource({name}, path spelled {SPELLINGS[how]}) returned another resource than the '
                                         f'one registered for that URI ({len(registered.contents)} roots)'))
                except Hang:
                    problems.append(('hang', f'get_resource({name}) on intact documents hangs'))
                    break
                except Exception as e:
                    if registered is not None:
                        problems.append(('not-same-resource', f'get_resource({name}) raised {type(e).__name__} although '
                                         'a resource is registered for that URI'))
    finally:
        for k in written:
            if k in env.files:
                with open(env.path(k), 'wb') as f:
                    f.write(env.files[k])
            else:
                os.remove(env.path(k))
    rs.saw_alias = any(not os.path.isabs(k) for k in rs.resources) or any(
        not os.path.isabs(k) for op in rs.oplog for k, _ in op[2])
    return len(rs.oplog), problems, compare_with_model(rs, model)


# ----------------------------------------------------------------------------

# Corruption kinds that, on the unchanged code, make the load fail only in its LINKING phase (references are set
# after every object of the document exists), i.e. possibly after a bidirectional reference into another resource
# was set: the known ghost-link findings are about these.  Every other kind (unknown attribute, unknown element,
# ill-typed literal, wrong xsi:type, ...) is refused while the document is decoded, before anything else is touched:
# a ghost link after one of those is NOT a known finding.  nested:* = the corrupted document is the referenced one.
LATE_FAILURE = {
    # XMI: references written as attributes and hrefs are linked after the whole tree was decoded
    'xmi': {'break-ref', 'retarget-ref', 'break-href', 'cut-qualified-ref'},
    # JSON: every reference (a {"$ref": ..} stub) is linked in the final phase of load
    'json': {'wrong-type', 'rename-reference', 'break-ref', 'break-href', 'retarget-ref', 'remove-element', 'dup-id'},
}


def sig(clause, fmt, corruption, qualifier=None):
    """{property, clause, format, corruption kind}.  Two clauses name a root cause that does not depend
    on the particular token that was corrupted; their corruption field is a class:
      prior-resource-changed / opposite-end-only : 'late-failure' for the kinds of LATE_FAILURE (the load fails in
                                                   its linking phase, after it linked to an object of another
                                                   resource); any other kind keeps its own name
      dangling-proxy                             : 'missing-target' for every corruption (each one can only
                                                   leave a dangling proxy by taking the target of a reference
                                                   away: a damaged fragment or id, an element removed, renamed,
                                                   re-typed or replaced, the referenced document itself =
                                                   nested:*); an INTACT document with a dangling proxy keeps
                                                   corruption='intact' and is not a known finding"""
    base = corruption.split(':', 1)[1] if corruption.startswith(('byloc:', 'nested:')) else corruption
    if clause == 'prior-resource-changed' and qualifier == 'opposite-end-only' and \
            (corruption.startswith('nested:') or base in LATE_FAILURE[fmt]):
        corruption = 'late-failure'
    elif clause == 'dangling-proxy' and corruption != 'intact':
        corruption = 'missing-target'
    s = {'property': PID, 'clause': clause, 'format': fmt, 'corruption': corruption}
    if qualifier:
        s['qualifier'] = qualifier
    return s


def b64(b):
    return base64.b64encode(b).decode('ascii')


def make_case(env, target, data, priors, kind, what, spec_info):
    return {'format': env.fmt, 'files': {k: b64(v) for k, v in env.files.items()},
            'restore': {k: b64(v) for k, v in env.restore.items()}, 'register_mm': env.register_mm,
            'probes': {k: b64(v) for k, v in env.probes.items()}, 'target': target,
            'data': b64(data), 'priors': priors, 'corruption': kind, 'what': what, 'info': spec_info}


def is_proper_prefix(data, full):
    return len(data) < len(full.rstrip()) and full.startswith(data)


def metaedit_scenarios(ctx, out):
    """After a FAILED load the dynamic metamodel is edited legally in a way that keeps the names old documents
    use but changes what they mean (an attribute replaced by a same-named one of another type, a reference by a
    same-named one typed by another class); a document that is valid for the NEW metamodel, asked for in a fresh
    resource set, must load exactly as in a twin history (fresh metamodel objects, same edit) without the failed
    load before it."""
    common.use_repo()
    from pyecore.ecore import EPackage, EClass, EAttribute, EReference, EString, EInt
    from pyecore.resources import ResourceSet, URI
    from pyecore.resources.json import JsonResource
    rng = common.rng_for(ctx.seed, 'C18:metaedit')
    scratch = os.path.join(common.BUILD, 'scratch')
    os.makedirs(scratch, exist_ok=True)
    n = 0
    for k in range(8 if ctx.tier == 'quick' else 40):
        hist = {'format': rng.choice(['xmi', 'json']), 'bad': rng.choice(['unknown-attribute', 'ill-typed-literal']),
                'edit': rng.choice(['attribute-type', 'attribute-type', 'reference-type']), 'k': k}
        fmt = hist['format']
        ns = f'http://verif/c18/metaedit/{k}'
        case = {'scenario': 'metaedit', 'seed': ctx.seed, 'tier': ctx.tier, 'history': hist}

        def history(with_failure, d):
            P = EPackage('p', nsURI=ns, nsPrefix='p')
            A, B = EClass('A'), EClass('B')
            A.eStructuralFeatures.extend([EAttribute('name', EString), EAttribute('n', EInt),
                                          EReference('kids', A, upper=-1, containment=True),
                                          EReference('others', B, upper=-1, containment=True),
                                          EReference('ref', A)])
            B.eStructuralFeatures.append(EAttribute('name', EString))
            P.eClassifiers.extend([A, B])

            def rset():
                rs = ResourceSet()
                rs.resource_factory['json'] = lambda uri, **kw: JsonResource(uri, **kw)
                rs.metamodel_registry[ns] = P
                return rs
            extra = ' zz="1"' if hist['bad'] == 'unknown-attribute' else ' n="notanumber"'
            jextra = '"zz": 1' if hist['bad'] == 'unknown-attribute' else '"n": "notanumber"'
            if fmt == 'xmi':
                bad = (f'<p:A xmlns:xmi="{XMI_NS}" xmlns:p="{ns}" xmi:version="2.0" name="x" ref="//@kids.0">'
                       f'<kids name="y"/><kids name="z"{extra}/></p:A>')
                good = (f'<p:A xmlns:xmi="{XMI_NS}" xmlns:p="{ns}" xmi:version="2.0" name="7" ref="//@others.0">'
                        '<others name="b"/></p:A>') if hist['edit'] == 'reference-type' else \
                    f'<p:A xmlns:xmi="{XMI_NS}" xmlns:p="{ns}" xmi:version="2.0" name="7"><kids name="8"/></p:A>'
            else:
                bad = ('{"eClass": "%s#//A", "name": "x", "ref": {"$ref": "//@kids.0"}, "kids": [{"name": "y"}, '
                       '{"name": "z", %s}]}' % (ns, jextra))
                good = ('{"eClass": "%s#//A", "name": "7", "ref": {"$ref": "//@others.0"}, "others": [{"name": "b"}]}' % ns) \
                    if hist['edit'] == 'reference-type' else \
                    '{"eClass": "%s#//A", "name": 7, "kids": [{"name": 8}]}' % ns
            for name, text in (('bad.' + fmt, bad), ('good.' + fmt, good)):
                with open(os.path.join(d, name), 'w') as f:
                    f.write(text)
            failed = None
            if with_failure:
                try:
                    watchdog(lambda: rset().get_resource(URI(os.path.join(d, 'bad.' + fmt))), 5.0)
                    failed = False
                except Hang:
                    return ('hang', None, None)
                except Exception:
                    failed = True
            # the legal edit: same names, other meaning
            if hist['edit'] == 'attribute-type':
                A.eStructuralFeatures.remove(A.findEStructuralFeature('name'))
                A.eStructuralFeatures.append(EAttribute('name', EInt))
            else:
                A.eStructuralFeatures.remove(A.findEStructuralFeature('ref'))
                A.eStructuralFeatures.append(EReference('ref', B))
            try:
                r = watchdog(lambda: rset().get_resource(URI(os.path.join(d, 'good.' + fmt))), 5.0)
                root = r.contents[0]
                ref = root.ref
                seen = ('returned', repr(root.name), [repr(x.name) for x in root.kids],
                        None if ref is None else ref.eClass.name)
            except Hang:
                seen = ('hang',)
            except Exception as e:
                seen = ('raised', type(e).__name__)
            return seen, failed, None
        with tempfile.TemporaryDirectory(dir=scratch) as d1, tempfile.TemporaryDirectory(dir=scratch) as d2:
            twin, _, _ = history(False, d1)
            got, failed, _ = history(True, d2)
            n += 1
            if failed and got != twin:
                out.fail(sig('later-load-affected', fmt, 'metamodel-edited-after-failed-load', 'fresh-rset'),
                         f'after a failed load ({hist["bad"]}) and a legal edit of the metamodel ({hist["edit"]}) a document '
                         f'valid for the new metamodel is answered {got}; without the failed load before: {twin}', case)
    out.coverage['metamodel_edit_after_failed_load_scenarios'] = n


def run(ctx, out):
    common.use_repo()
    metaedit_scenarios(ctx, out)
    thorough = ctx.tier == 'thorough'
    rng = ctx.rng
    scratch = os.path.join(common.BUILD, 'scratch')
    os.makedirs(scratch, exist_ok=True)
    model = common.Model()
    timeout = 5.0
    stats = {'attempts': 0, 'raised': 0, 'returned': 0, 'hang': 0, 'by_kind': {}, 'outcome_by_kind': {},
             'prefix_attempts': 0, 'corruption_attempts': 0, 'model_calls': 0, 'with_nested_loads': 0,
             'setup_failed': 0, 'registry_walk_calls': 0, 'followed_by_intact_reload': 0, 'ghost_kinds': {}, 'location_only_attempts': 0, 'later_load_affected_inherited': 0, 'docs': [], 'samples': [], 'distinct': set(), 'intact_not_loading': []}
    n_specs, nmax, prefix_cap = (4, 5, 700) if not thorough else (16, 7, 5000)
    budget = time.time() + (float(os.environ.get("C18_BUDGET", 32)) if not thorough else 500)
    cut = False
    mm = make_mm()
    ecore_bytes = ecore_document(scratch)
    seen_sl = set()

    tainted = {}

    def record(env, target, data, priors, kind, what, info, r, full=None):
        stats['attempts'] += 1
        if r['setup_failed']:
            stats['setup_failed'] += 1
        if r['outcome']:
            stats[r['outcome']] += 1
            key = f'{env.fmt}/{kind}/{r["outcome"]}'
            stats['outcome_by_kind'][key] = stats['outcome_by_kind'].get(key, 0) + 1
        stats['by_kind'][kind] = stats['by_kind'].get(kind, 0) + 1
        if r['nested']:
            stats['with_nested_loads'] += 1
        if r.get('followed'):
            stats['followed_by_intact_reload'] += 1
        if r.get('retried_after_timeout'):
            stats['watchdog_retries'] = stats.get('watchdog_retries', 0) + 1
        if model is not None and not r['setup_failed'] and r['outcome'] != 'hang':
            stats['model_calls'] += 1
        stats['distinct'].add((env.fmt, target, tuple(priors), hash(data)))
        case = None
        if full is not None and r['outcome'] == 'returned' and is_proper_prefix(data, full):
            r['problems'].append(('half-built', f'a document truncated after {len(data)} of {len(full)} bytes was loaded'))
        seen = set()
        affected = any(p[0] == 'later-load-affected' for p in r['problems'])
        if r.get('followed'):
            # state leaked by a failed load can be process-wide: only a detection that follows a clean
            # reload is attributed to its own attempt; the following ones are counted as inherited
            if affected and tainted.get(env.fmt):
                stats['later_load_affected_inherited'] += 1
                r['problems'] = [p for p in r['problems'] if p[0] != 'later-load-affected']
            tainted[env.fmt] = affected
        for prob in r['problems']:
            clause, msg = prob[0], prob[1]
            if clause == 'prior-resource-changed':
                kk = kind.split(':', 1)[1] if kind.startswith('byloc:') else kind
                stats['ghost_kinds'].setdefault(env.fmt, {}).setdefault(kk, 0)
                stats['ghost_kinds'][env.fmt][kk] += 1
            if clause in seen:
                continue
            seen.add(clause)
            case = case or make_case(env, target, data, priors, kind, what, info)
            out.fail(sig(clause, env.fmt, kind, prob[2] if len(prob) > 2 else None), f'{what}: {msg}', case)
        if r['corr']:
            case = case or make_case(env, target, data, priors, kind, what, info)
            out.diff(f'registry machine vs impl ({env.fmt}, {kind}, {what}): {r["corr"]}', case)

    combos = []
    for si in range(n_specs):
        spec = gen_spec(rng, nmax)
        for fmt in ('xmi', 'json'):
            combos.append((si, spec, fmt, (si + (fmt == 'json')) % 2 == 1))
        if thorough:
            for fmt in ('xmi', 'json'):
                combos.append((si, spec, fmt, (si + (fmt == 'json')) % 2 == 0))
    # a directed document first: its FIRST child holds nothing but a bidirectional reference into the other,
    # already loaded, resource; the siblings after it carry the corruptions ("corrupted further down")
    def _o(res, name, **kw):
        o = {'cls': 'Node', 'parent': None, 'via': None, 'res': res, 'attrs': {'name': name, 'n': 1}, 'peer': None,
             'friends': [], 'mate': None, 'things': 0}
        o.update(kw)
        return o
    directed = {'objs': [_o('main', 'r'), _o('main', 'k1', parent=0, via='kids', friends=[4]),
                         _o('main', 'k2', parent=0, via='kids'), _o('main', 'k3', parent=0, via='kids', mate=4),
                         _o('ext', 'e')]}
    combos = [('directed', directed, 'json', False), ('directed', directed, 'xmi', False)] + combos
    for si, spec, fmt, use_uuid in combos:
        if cut:
            break
        with tempfile.TemporaryDirectory(dir=scratch) as d0:
            files = build_and_save(spec, d0, fmt, use_uuid)
        info = {'spec': si, 'use_uuid': use_uuid, 'objects': len(spec['objs'])}
        main, ext = f'main.{fmt}', f'ext.{fmt}'
        with tempfile.TemporaryDirectory(dir=scratch) as d:
            env = Env(d, fmt, files, mm)
            full = files[main]
            stats['docs'].append({'format': fmt, 'use_uuid': use_uuid, 'bytes': len(full), 'objects': len(spec['objs'])})
            # the intact documents, in the three scenarios
            scenarios = [(main, []), (main, [f'prior.{fmt}']), (f'm2.{fmt}', [ext]), (f'm2.{fmt}', [f'prior.{fmt}', ext])]
            for target, priors in scenarios:
                r = attempt(env, target, full, priors, timeout, model)
                if r['outcome'] != 'returned' and not r['setup_failed']:
                    stats['intact_not_loading'].append({'format': fmt, 'use_uuid': use_uuid, 'target': target, 'priors': priors})
                record(env, target, full, priors, 'intact', 'the document as saved', info, r, full)
            # a legal document WITHOUT roots, asked for twice (alone, and after another resource)
            zero = zero_roots_document(fmt)
            for priors in ([], [f'prior.{fmt}']):
                r = attempt(env, f'empty.{fmt}', zero, priors, timeout, model)
                record(env, f'empty.{fmt}', zero, priors, 'zero-roots', 'a document without any root', info, r)
            # registry walks on the intact documents (create/get/remove_resource, aliases, zero-root documents)
            for wi in range(4):
                ncalls, probs, corr = registry_scenario(env, model, rng, timeout, mapped=(wi % 2 == 1))
                stats['registry_walk_calls'] += ncalls
                stats['model_calls'] += 1
                for clause, msg in probs:
                    out.fail(sig(clause, fmt, 'intact'), msg, make_case(env, main, full, [], 'intact', 'registry walk', info))
                if corr:
                    out.diff(f'registry machine vs impl on a registry walk ({fmt}): {corr}',
                             make_case(env, main, full, [], 'intact', 'registry walk', info))
            # the same documents, naming their metamodel by LOCATION only (xsi:schemaLocation / eClass given as
            # lib.ecore#//Name), in a ResourceSet that does not know the metamodel; after every failure: all
            # registries as before, and the original document (no location) still refused as in a fresh one
            if not cut:
                sl_files = {k: with_location(fmt, v) for k, v in files.items()}
                sl_files['lib.ecore'] = ecore_bytes
                with tempfile.TemporaryDirectory(dir=scratch) as dsl:
                    envl = Env(dsl, fmt, sl_files, mm, register_mm=False, probes={f'noloc.{fmt}': full})
                    fulll = sl_files[main]
                    sl_scen = [(main, []), (f'm2.{fmt}', [f'prior.{fmt}', ext])]
                    for target, priors in sl_scen:
                        r = attempt(envl, target, fulll, priors, timeout, model)
                        if r['outcome'] != 'returned' and not r['setup_failed']:
                            stats['intact_not_loading'].append({'format': fmt, 'use_uuid': use_uuid, 'target': target,
                                                                'priors': priors, 'metamodel': 'by location only'})
                        record(envl, target, fulll, priors, 'intact', 'the document as saved, metamodel by location only',
                               info, r, fulll)
                    gen = xmi_corruptions(fulll) if fmt == 'xmi' else json_corruptions(fulll)
                    for ci, (kind, what, data) in enumerate(gen):
                        todo = sl_scen if thorough else [sl_scen[ci % 2]] if ci % 2 == 0 or kind not in seen_sl else []
                        seen_sl.add(kind)
                        for target, priors in todo:
                            r = attempt(envl, target, data, priors, timeout, model, follow=True)
                            stats['location_only_attempts'] += 1
                            record(envl, target, data, priors, 'byloc:' + kind, 'metamodel by location only; ' + what, info, r)
                        if time.time() > budget:
                            cut = True
                            break
            # every prefix (stride 1 up to the cap, then strided)
            stride = 1 if len(full) <= prefix_cap else -(-len(full) // prefix_cap)
            for k in list(range(0, len(full), stride)) + [len(full.rstrip())]:
                target, priors = scenarios[k % 7 % 4] if k % 7 < 4 and k % 3 == 0 else scenarios[0]
                data = full[:k]
                r = attempt(env, target, data, priors, timeout, model, follow=(k % 25 == 0))
                stats['prefix_attempts'] += 1
                record(env, target, data, priors, 'truncation', f'first {k} of {len(full)} bytes', info, r, full)
                if time.time() > budget:
                    cut = True
                    break
            # single-token corruptions, each in two scenarios (alone; next to previously loaded resources)
            gen = xmi_corruptions(full) if fmt == 'xmi' else json_corruptions(full)
            for ci, (kind, what, data) in enumerate(gen):
                if cut:
                    break
                todo = [scenarios[0], scenarios[3]] if (thorough or ci % 2 == 0) else [scenarios[2]]
                for target, priors in todo:
                    r = attempt(env, target, data, priors, timeout, model, follow=True)
                    stats['corruption_attempts'] += 1
                    record(env, target, data, priors, kind, what, info, r)
                    if len(stats['samples']) < 5 and r['outcome'] and ci % 17 == 3:
                        stats['samples'].append({'format': fmt, 'corruption': kind, 'what': what, 'target': target,
                                                 'priors': priors, 'outcome': r['outcome'],
                                                 'problems': [p[0] for p in r['problems']]})
                if time.time() > budget:
                    cut = True
            # corrupted ext next to an intact main (the failure is in a NESTED load)
            if not cut:
                gen = xmi_corruptions(files[ext]) if fmt == 'xmi' else json_corruptions(files[ext])
                for ci, (kind, what, data) in enumerate(gen):
                    if ci % (3 if not thorough else 1) != 0:
                        continue
                    env2_files = dict(files)
                    env2_files[ext] = data
                    with tempfile.TemporaryDirectory(dir=scratch) as d2:
                        env2 = Env(d2, fmt, env2_files, mm)
                        env2.baselines = env.baselines
                        env2.restore = {ext: files[ext]}
                        r = attempt(env2, main, full, [f'prior.{fmt}'], timeout, model, follow=True)
                        stats['corruption_attempts'] += 1
                        record(env2, main, full, [f'prior.{fmt}'], 'nested:' + kind, 'in ext: ' + what, info, r)
                    if time.time() > budget:
                        cut = True
                        break
    model.close()
    out.coverage.update({
        'evaluations': stats['attempts'],
        'distinct_nontrivial': len(stats['distinct']),
        'rule': 'a case = (format, document bytes, target name, previously loaded documents); distinct_nontrivial '
                'counts distinct cases on which get_resource really ran twice in a fresh ResourceSet and every '
                'clause was evaluated; prefixes: every byte prefix (stride 1 up to the cap); corruptions: every '
                'applicable token of the document x every corruption kind',
        'traces_validated_against_impl': stats['model_calls'],
        'prefix_attempts': stats['prefix_attempts'], 'corruption_attempts': stats['corruption_attempts'],
        'outcomes': {k: stats[k] for k in ('raised', 'returned', 'hang')},
        'attempts_by_corruption_kind': stats['by_kind'],
        'outcome_by_format_kind': stats['outcome_by_kind'],
        'attempts_with_nested_get_resource': stats['with_nested_loads'],
        'prior_resource_changed_by_corruption_kind': stats['ghost_kinds'],
        'attempts_on_documents_naming_their_metamodel_by_location_only': stats['location_only_attempts'],
        'failed_loads_followed_by_intact_reload(same+fresh rset)': stats['followed_by_intact_reload'],
        'attempts_redone_after_a_watchdog_timeout': stats.get('watchdog_retries', 0),
        'later_load_affected_inherited(not attributed)': stats['later_load_affected_inherited'],
        'registry_walk_calls(get/remove on intact documents)': stats['registry_walk_calls'],
        'attempts_whose_prior_documents_failed_to_load': stats['setup_failed'],
        'intact_documents_not_loading': stats['intact_not_loading'][:5],
        'documents': stats['docs'], 'cut_by_time_budget': cut, 'samples': stats['samples'],
    })
    out.assumptions += [
        'lxml / json.loads reject every strictly truncated document (A-lxml / A-json); checked: a proper prefix '
        'that loads is reported as half-built',
        'all documents of one case live in one directory, so the original href string of a nested request is the '
        'basename of the nested URI (mapped-URI walks: the mapped prefix + basename); that is how the load script '
        'is rebuilt from the trace; alias keys only arise in the mapped-URI registry walks',
        'nested get_resource calls are observed by subclassing ResourceSet (public API), nothing is patched',
        'objects of previously loaded resources are compared through eGet/eContainer/eResource; an unresolved '
        'proxy is compared as such (not resolved by the observation)',
        f'watchdog: {timeout}s per get_resource call (SIGALRM); a time-out is confirmed by redoing the attempt with '
        f'{timeout * 4}s before it is reported as a hang',
    ]


def replay(ctx, rep):
    common.use_repo()
    case = rep['case']
    if case.get('scenario') == 'metaedit':
        return common.scenario_replay(ctx, rep, {'metaedit': metaedit_scenarios})
    scratch = os.path.join(common.BUILD, 'scratch')
    os.makedirs(scratch, exist_ok=True)
    files = {k: base64.b64decode(v) for k, v in case['files'].items()}
    data = base64.b64decode(case['data'])
    clause = rep.get('signature', {}).get('clause')
    if case.get('what') == 'registry walk':
        # random get_resource / remove_resource walks over the intact documents
        model = common.Model()
        bad = False
        with tempfile.TemporaryDirectory(dir=scratch) as d:
            env = Env(d, case['format'], files, make_mm())
            for k in range(30):
                n, probs, corr = registry_scenario(env, model, ctx.rng, 5.0)
                if probs or corr:
                    print(f'walk {k} ({n} calls):', probs, corr)
                    bad = True
                    break
        model.close()
        print('REPRODUCED' if bad else 'not reproduced', '(registry walk)')
        return 1 if bad else 0
    with tempfile.TemporaryDirectory(dir=scratch) as d:
        env = Env(d, case['format'], files, make_mm(), register_mm=case.get('register_mm', True),
                  probes={k: base64.b64decode(v) for k, v in (case.get('probes') or {}).items()})
        env.restore = {k: base64.b64decode(v) for k, v in (case.get('restore') or {}).items()}
        # the two asks of an attempt rotate over the spellings of the path: every pair is tried
        for _ in range(len(SPELLING_PAIRS)):
            r = attempt(env, case['target'], data, case['priors'], 5.0, None, follow=True)
            if any(p[0] == clause for p in r['problems']):
                break
        full = files.get(f'main.{case["format"]}', b'')
        if r['outcome'] == 'returned' and is_proper_prefix(data, full):
            r['problems'].append(('half-built', 'a strictly truncated document was loaded'))
    print(f'corruption: {case["corruption"]} ({case["what"]}); target {case["target"]}; priors {case["priors"]}')
    print(f'get_resource: {r["outcome"]}')
    for p in r['problems']:
        print(f'  {p[0]}: {p[1]}')
    bad = any(p[0] == clause for p in r['problems']) if clause else bool(r['problems'])
    print('REPRODUCED' if bad else 'not reproduced', f'(clause {clause})')
    return 1 if bad else 0
