(* C12 — dynamic metaclasses and their instances follow metamodel edits.
   Statements only; proofs are in Proofs/C3Proofs.v, Proofs/MetaEditProofs.v and
   Proofs/MetaEditInv.v.
   Models: Model/C3.v (CPython's C3 linearisation, pyecore's replacement
   linearisation), Model/MetaEdit.v (EClass.notifyChanged / _update_supertypes /
   __compute_supertypes / __create_fun, class namespaces, __bases__ assignment,
   descriptor-first attribute lookup on instances).

   Full strength: the C3 theorems (no bound on the graph); the mirror
   invariants for every history; the cache invariant GInv for EVERY edit and
   outcome, no side condition (C12_cache_invariant_every_edit: mro_hierarchy's
   depth-first traversal over the registered subclasses against partly stale
   caches included; a failed assignment rolls back), hence in every state
   reached from the empty one
   - the linearisations Python caches list exactly the classes reachable
     through the current bases, pyecore's replacement linearisation installed
     or not (C12_closed_caches_every_history),
   - and while the replacement is not installed they are the linearisations
     from scratch over the current bases (C12_cache_consistent_every_history:
     the premise `consistent st` of the state-level theorems below);
   when the replacement gets installed (C12_replacement_installed_iff) and
   that it stays (C12_replacement_is_permanent).
   `_partial` theorems and what they leave out:
   - the state-level ones (first group) take `consistent st` and `flag st =
     false` as premises; the `_history_partial` ones (last group) are the same
     statements for fold_left next ops (empty_state fl) WITHOUT these premises:
     they cover the histories that install the replacement too, and every
     instance (its class always exists);
   - histories are restricted by `side_condition` (a bulk clear() that stops
     half-way, a supertype edit for which even the replacement fails: cycles,
     unknown supertypes) and, for the "declared => visible" direction, `wf_op`
     (one declaration per name and class; no behaviour attached under a
     feature name);
   - an instance that has touched a name keeps a slot in its own dict: for such
     instance/name pairs only the characterisation `visible => declared or slot
     held` is true, see C12_removed_feature_stays_readable_refuted (the known
     finding F-C12-stale-slot). *)
From Coq Require Import String Ascii ZArith Bool List.
From PyecoreV Require Import Lib.PyBase Lib.PyList Model.C3 Model.Operations Model.MetaEdit Proofs.C3Proofs Proofs.OperationsProofs Proofs.MetaEditProofs Proofs.MetaEditInv.
Import ListNotations.
Open Scope Z_scope.

(* ---------- C3 ---------- *)

(* when C3 succeeds the result starts with the class, has no duplicates, and
   contains exactly the bases and the members of their linearisations *)
Theorem C12_C3_perm :
  forall c ms bs l, linearize c ms bs = Some l ->
    exists l', l = c :: l' /\ NoDup l' /\
      (forall x, In x l' <-> In x bs \/ exists m, In m ms /\ In x m).
Proof. exact C3_perm. Qed.
Print Assumptions C12_C3_perm.

(* local precedence and monotonicity *)
Theorem C12_C3_keeps_order :
  forall c ms bs l, linearize c ms bs = Some l -> NoDup bs -> (forall m, In m ms -> NoDup m) ->
    (forall x y, before x y bs -> before x y l) /\
    (forall m x y, In m ms -> before x y m -> before x y l).
Proof. exact C3_keeps_order. Qed.
Print Assumptions C12_C3_keeps_order.

(* the linearisation of a class = the classes reachable through bases
   (reflexive-transitive closure: diamonds, any declaration order) *)
Theorem C12_linearisation_is_closure :
  forall g fuel c l, mro_of g false fuel c = Some l -> forall x, In x l <-> reach g c x.
Proof. exact mro_of_closure. Qed.
Print Assumptions C12_linearisation_is_closure.

Theorem C12_linearisation_no_duplicates :
  forall g (rk : Z -> nat), (forall c b, In b (g c) -> (rk b < rk c)%nat) ->
    forall fuel c l, mro_of g false fuel c = Some l -> NoDup l.
Proof. exact mro_of_NoDup. Qed.
Print Assumptions C12_linearisation_no_duplicates.

(* ---------- the mirror ---------- *)

(* every edit keeps: a class namespace holds nothing but what the class
   declares, under the right key; the Python bases are the declared supertypes *)
Theorem C12_mirror_invariant :
  forall o st st' r, Inv st -> step o st = (st', r) -> side_condition o r -> Inv st'.
Proof. exact step_preserves_Inv. Qed.
Print Assumptions C12_mirror_invariant.

(* ... and, for well-formed edits, everything the class declares is in its namespace *)
Theorem C12_mirror_complete :
  forall o st st' r, Inv st -> Full st -> wf_op st o -> step o st = (st', r) -> side_condition o r -> Full st'.
Proof. exact step_preserves_Full. Qed.
Print Assumptions C12_mirror_complete.

Theorem C12_every_history :
  forall ops st, Inv st -> Full st -> wf_history ops st ->
    Inv (fold_left next ops st) /\ Full (fold_left next ops st).
Proof. exact history_Inv_Full. Qed.
Print Assumptions C12_every_history.

Theorem C12_every_history_sound :
  forall ops fl, sides ops (empty_state fl) -> Inv (fold_left next ops (empty_state fl)).
Proof. exact history_Inv. Qed.
Print Assumptions C12_every_history_sound.

(* ---------- visibility ---------- *)

(* nothing that was removed: whatever an instance shows is declared by its
   class or a transitive supertype (or is a behaviour attached there) -- or is
   a slot the instance itself still holds *)
Theorem C12_visible_is_declared_partial :
  forall st i n x,
    Inv st -> consistent st -> flag st = false -> geti st i = Some x -> visible st i n ->
    (exists d, in_closure st (i_cls x) d /\
       ((exists f, declares_feat st d n f) \/ (exists s, declares_op st d n s) \/
        (exists b, ns_get n (ns_of st d) = Some (EBeh b))))
    \/ has_slot st i n.
Proof. exact visible_sound. Qed.
Print Assumptions C12_visible_is_declared_partial.

(* everything declared is visible, on instances created before or after the edit *)
Theorem C12_declared_is_visible_partial :
  forall st i x l d n,
    Inv st -> Full st -> consistent st -> flag st = false -> geti st i = Some x -> mro st (i_cls x) = Some l ->
    in_closure st (i_cls x) d ->
    ((exists f, declares_feat st d n f) \/ (exists s, declares_op st d n s)) ->
    visible st i n.
Proof. exact declared_is_visible. Qed.
Print Assumptions C12_declared_is_visible_partial.

(* exactly the declared names, for every instance that holds no slot of the name *)
Theorem C12_visible_iff_declared_partial :
  forall st i x l n,
    Inv st -> Full st -> consistent st -> flag st = false -> geti st i = Some x -> mro st (i_cls x) = Some l ->
    ns_get n (i_dict x) = None ->
    (forall d b, ns_get n (ns_of st d) = Some (EBeh b) -> exists s, declares_op st d n s) ->
    (visible st i n <->
     exists d, in_closure st (i_cls x) d /\
       ((exists f, declares_feat st d n f) \/ (exists s, declares_op st d n s))).
Proof. exact visible_iff_declared. Qed.
Print Assumptions C12_visible_iff_declared_partial.

(* with their defaults and multiplicity *)
Theorem C12_declared_feature_is_the_one_found_partial :
  forall st c l d n f,
    Inv st -> Full st -> consistent st -> flag st = false -> mro st c = Some l -> in_closure st c d ->
    declares_feat st d n f ->
    (forall z, In z l -> z <> d -> ns_get n (ns_of st z) = None) ->
    class_lookup st c n = Some (EFeat f).
Proof. exact declared_feature_lookup. Qed.
Print Assumptions C12_declared_feature_is_the_one_found_partial.

Theorem C12_untouched_instance_reads_default :
  forall st i n x f,
    geti st i = Some x -> ns_get n (i_dict x) = None ->
    class_lookup st (i_cls x) n = Some (EFeat f) ->
    snd (getattr_m st i n) = if f_many f then GColl [] else GSingle (f_default f).
Proof. exact getattr_default. Qed.
Print Assumptions C12_untouched_instance_reads_default.

(* ---------- isinstance ---------- *)

(* isinstance (= EcoreUtils.isinstance) holds exactly for the class and its
   transitive supertypes *)
Theorem C12_isinstance_is_closure_partial :
  forall st i c x l,
    Inv st -> consistent st -> flag st = false -> geti st i = Some x -> mro st (i_cls x) = Some l -> c <> 0 ->
    (isinstance_m st i c = true <-> in_closure st (i_cls x) c).
Proof. exact isinstance_closure. Qed.
Print Assumptions C12_isinstance_is_closure_partial.

(* ---------- witnesses ---------- *)

Local Open Scope string_scope.
Definition X : name := of_string "x".
Definition FX (many : bool) (d : Z) : feat := mkFeat X 0 many d.

(* non-vacuity: diamond D(B, C), B(A), C(A); x declared on A after the instances
   exist; default read through the diamond; isinstance row; removal hides it *)
Example C12_witness :
  let h := [NewClass []; NewClass [1]; NewClass [1]; NewClass [2; 3]; NewInst 4; AddFeat 1 (FX false 5)] in
  let st := fold_left next h (empty_state false) in
  mro st 4 = Some [4; 2; 3; 1; 0] /\
  snd (step (Get 0 X) st) = ROk [1; 5] /\
  map (isinstance_m st 0) [1; 2; 3; 4] = [true; true; true; true] /\
  snd (step (Get 0 X) (next st (RemoveFeat 1 X))) = RErr XAttr /\
  flag st = false /\ consistentb st = true /\ wf_history h (empty_state false).
Proof. vm_compute. repeat split; try reflexivity; try discriminate; try (intros ? ?; discriminate);
       intros k E; inversion E; subst; simpl; tauto. Qed.

(* declaration order that C3 refuses: (A, B) with B(A) -- the sorted fall-back gives (B, A) *)
Example C12_sorted_fallback_witness :
  let st := fold_left next [NewClass []; NewClass [1]; NewClass [1; 2]] (empty_state false) in
  bases_fn st 3 = [2; 1] /\ mro st 3 = Some [3; 2; 1; 0] /\ flag st = false.
Proof. vm_compute. repeat split; reflexivity. Qed.

(* no consistent order at all: the linearisation is replaced process-wide *)
Example C12_replacement_witness :
  let st := fold_left next [NewClass []; NewClass []; NewClass [1; 2]; NewClass [2; 1]; NewClass [3; 4]]
                      (empty_state false) in
  flag st = true /\ mro st 5 = Some [5; 3; 4; 1; 2; 0].
Proof. vm_compute. split; reflexivity. Qed.

(* CPython re-linearises the subclasses of an edited class one by one against
   partly stale caches: re-appending A to C's supertypes (bases (B, A) -> (A, B))
   fails although every class has a linearisation over the new bases, and
   pyecore ends up replacing the linearisation process-wide *)
Example C12_stale_cache_witness :
  let h := [NewClass []; NewClass [1]; NewClass [1; 2]; NewClass [2; 3]; NewClass [4];
            AddSuper 5 3; RemoveSuper 2 1; AddSuper 4 2] in
  let st := fold_left next h (empty_state false) in
  flag st = false /\ consistentb st = true /\
  map (mro_spec (set_bases st 3 [1; 2])) [3; 4; 5] = [Some [3; 1; 2; 0]; Some [4; 3; 1; 2; 0]; Some [5; 4; 3; 1; 2; 0]] /\
  flag (next st (AddSuper 3 1)) = true.
Proof. vm_compute. repeat split; reflexivity. Qed.

(* known finding F-C12-stale-slot: an instance that has read x keeps showing it
   after the feature is removed (the bare holder comes back), and keeps its
   old single-valued slot when x is declared again as many-valued *)
Example C12_removed_feature_stays_readable_refuted :
  let h := [NewClass []; AddFeat 1 (FX false 5); NewInst 1; Get 0 X; RemoveFeat 1 X] in
  let st := fold_left next h (empty_state false) in
  feats_of st 1 = [] /\ snd (getattr_m st 0 X) = GStaleSingle /\
  snd (getattr_m (next st (AddFeat 1 (FX true 0))) 0 X) = GSingle 5 /\
  snd (getattr_m (next (next st (AddFeat 1 (FX true 0))) (NewInst 1)) 1 X) = GColl [].
Proof. vm_compute. repeat split; reflexivity. Qed.

(* ---------- the caches, for every edit and every history ---------- *)

(* the invariant: every cache is what the metaclass computes from the caches
   of the current bases, the subclass registry is the inverse of the bases
   relation, the bases graph is acyclic *)
Theorem C12_cache_invariant_every_edit :
  forall o st, GInv st -> GInv (next st o).
Proof. exact step_GInv. Qed.
Print Assumptions C12_cache_invariant_every_edit.

Theorem C12_cache_invariant_gives_closed_caches :
  forall st, GInv st -> forall c l, mro st c = Some l -> forall x, In x l <-> reach (bases_fn st) c x.
Proof. exact GInv_MR. Qed.
Print Assumptions C12_cache_invariant_gives_closed_caches.

Theorem C12_cache_invariant_gives_consistent :
  forall st, GInv st -> flag st = false -> consistent st.
Proof. exact GInv_consistent. Qed.
Print Assumptions C12_cache_invariant_gives_consistent.

Theorem C12_closed_caches_every_history :
  forall ops fl, closed_caches (fold_left next ops (empty_state fl)).
Proof. exact history_closed_caches. Qed.
Print Assumptions C12_closed_caches_every_history.

Theorem C12_cache_consistent_every_history :
  forall ops fl, flag (fold_left next ops (empty_state fl)) = false ->
    consistent (fold_left next ops (empty_state fl)).
Proof. exact history_consistent. Qed.
Print Assumptions C12_cache_consistent_every_history.

(* the replacement is installed exactly when both C3 attempts of a supertype
   edit fail (declared order, then sorted by number of supertypes), and stays *)
Theorem C12_replacement_installed_iff :
  forall o st, GInv st -> flag st = false ->
    (flag (next st o) = true <->
     exists s1 c, pre_update o st = Some (s1, c) /\
       assign s1 c (compute_supertypes (supers_fn s1 c)) = None /\
       assign s1 c (sort_desc (fun x => length (all_supertypes s1 x)) (compute_supertypes (supers_fn s1 c))) = None).
Proof. exact flag_raised_iff. Qed.
Print Assumptions C12_replacement_installed_iff.

Theorem C12_replacement_is_permanent :
  forall o st, GInv st -> flag (next st o) = false -> flag st = false.
Proof. exact step_flag. Qed.
Print Assumptions C12_replacement_is_permanent.

(* the depth-first traversal of the model runs on fuel (number of classes + 2):
   any larger amount gives the same result, a failed assignment is never an
   artefact of the model *)
Theorem C12_assignment_fuel_is_enough :
  forall st c k bs F, GInv st -> getc st c = Some k -> (fuel_of st <= F)%nat ->
    hier F (setc st c (with_bases bs k)) c = hier (fuel_of st) (setc st c (with_bases bs k)) c.
Proof. exact assign_fuel_enough. Qed.
Print Assumptions C12_assignment_fuel_is_enough.

Theorem C12_instance_class_exists_every_history :
  forall ops st, IC st -> IC (fold_left next ops st).
Proof. exact history_IC. Qed.
Print Assumptions C12_instance_class_exists_every_history.

(* ---------- visibility and isinstance for whole histories ---------- *)

Theorem C12_visible_is_declared_history_partial :
  forall ops fl i n x,
    let st := fold_left next ops (empty_state fl) in
    sides ops (empty_state fl) -> geti st i = Some x -> visible st i n ->
    (exists d, in_closure st (i_cls x) d /\
       ((exists f, declares_feat st d n f) \/ (exists s, declares_op st d n s) \/
        (exists b, ns_get n (ns_of st d) = Some (EBeh b))))
    \/ has_slot st i n.
Proof. exact history_visible_sound. Qed.
Print Assumptions C12_visible_is_declared_history_partial.

Theorem C12_declared_is_visible_history_partial :
  forall ops fl i x d n,
    let st := fold_left next ops (empty_state fl) in
    wf_history ops (empty_state fl) -> geti st i = Some x ->
    in_closure st (i_cls x) d ->
    ((exists f, declares_feat st d n f) \/ (exists s, declares_op st d n s)) ->
    visible st i n.
Proof. exact history_declared_is_visible. Qed.
Print Assumptions C12_declared_is_visible_history_partial.

Theorem C12_visible_iff_declared_history_partial :
  forall ops fl i x n,
    let st := fold_left next ops (empty_state fl) in
    wf_history ops (empty_state fl) -> geti st i = Some x ->
    ns_get n (i_dict x) = None ->
    (forall d b, ns_get n (ns_of st d) = Some (EBeh b) -> exists s, declares_op st d n s) ->
    (visible st i n <->
     exists d, in_closure st (i_cls x) d /\
       ((exists f, declares_feat st d n f) \/ (exists s, declares_op st d n s))).
Proof. exact history_visible_iff_declared. Qed.
Print Assumptions C12_visible_iff_declared_history_partial.

Theorem C12_declared_feature_is_the_one_found_history_partial :
  forall ops fl c l d n f,
    let st := fold_left next ops (empty_state fl) in
    wf_history ops (empty_state fl) -> mro st c = Some l -> in_closure st c d ->
    declares_feat st d n f ->
    (forall z, In z l -> z <> d -> ns_get n (ns_of st z) = None) ->
    class_lookup st c n = Some (EFeat f).
Proof. exact history_declared_feature_lookup. Qed.
Print Assumptions C12_declared_feature_is_the_one_found_history_partial.

Theorem C12_isinstance_is_closure_history_partial :
  forall ops fl i c x,
    let st := fold_left next ops (empty_state fl) in
    sides ops (empty_state fl) -> geti st i = Some x -> c <> 0 ->
    (isinstance_m st i c = true <-> in_closure st (i_cls x) c).
Proof. exact history_isinstance_closure. Qed.
Print Assumptions C12_isinstance_is_closure_history_partial.

(* the premises are satisfiable: diamond D(B, C), B(A), C(A), a subclass E(D)
   with an instance; x declared on C; C removed from D's supertypes (E is
   re-linearised with D) and added again *)
Example C12_history_witness :
  let h1 := [NewClass []; NewClass [1]; NewClass [1]; NewClass [2; 3]; NewClass [4]; NewInst 5;
             AddFeat 3 (FX false 5); RemoveSuper 4 3] in
  let h := (h1 ++ [AddSuper 4 3])%list in
  let mid := fold_left next h1 (empty_state false) in
  let st := fold_left next h (empty_state false) in
  wf_history h (empty_state false) /\ flag st = false /\ geti st 0 = Some (mkInst 5 []) /\
  mro mid 5 = Some [5; 4; 2; 1; 0] /\ isinstance_m mid 0 3 = false /\ snd (step (Get 0 X) mid) = RErr XAttr /\
  mro st 5 = Some [5; 4; 2; 3; 1; 0] /\ isinstance_m st 0 3 = true /\ snd (step (Get 0 X) st) = ROk [1; 5].
Proof. vm_compute. repeat split; try reflexivity; try discriminate; try (intros ? ?; discriminate);
       intros k E; inversion E; subst; simpl; tauto. Qed.

(* ... also in a history that installs the replacement: E(C(A, B), D(B, A)) *)
Example C12_history_replacement_witness :
  let h := [NewClass []; NewClass []; NewClass [1; 2]; NewClass [2; 1]; NewClass [3; 4]; NewInst 5;
            AddFeat 2 (FX false 5)] in
  let st := fold_left next h (empty_state false) in
  wf_history h (empty_state false) /\ flag st = true /\ geti st 0 = Some (mkInst 5 []) /\
  mro st 5 = Some [5; 3; 4; 1; 2; 0] /\
  map (isinstance_m st 0) [1; 2; 3; 4; 5] = [true; true; true; true; true] /\
  snd (step (Get 0 X) st) = ROk [1; 5].
Proof. vm_compute. repeat split; try reflexivity; try discriminate; try (intros ? ?; discriminate);
       intros k E; inversion E; subst; simpl; tauto. Qed.
