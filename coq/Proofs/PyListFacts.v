(* Facts about the Python-list primitives of Lib/PyList.v. *)
From Coq Require Import ZArith List Bool Lia.
From PyecoreV Require Import Lib.PyList.
Import ListNotations.
Open Scope Z_scope.

Lemma zlen_nonneg {A} (l : list A) : 0 <= zlen l.
Proof. unfold zlen; lia. Qed.

Lemma zlen_cons {A} (x : A) l : zlen (x :: l) = zlen l + 1.
Proof. unfold zlen; simpl length; lia. Qed.

Lemma zlen_app {A} (l1 l2 : list A) : zlen (l1 ++ l2) = zlen l1 + zlen l2.
Proof. unfold zlen; rewrite app_length; lia. Qed.

Lemma memb_In (x : Z) l : memb Z.eqb x l = true <-> In x l.
Proof.
  induction l as [|y ys IH]; simpl.
  - split; [discriminate | tauto].
  - rewrite orb_true_iff, IH, Z.eqb_eq. tauto.
Qed.

Lemma memb_false_In (x : Z) l : memb Z.eqb x l = false <-> ~ In x l.
Proof.
  rewrite <- memb_In. destruct (memb Z.eqb x l); split; intros; try congruence; tauto.
Qed.

Lemma index_of_None (x : Z) l : index_of Z.eqb x l = None <-> ~ In x l.
Proof.
  induction l as [|y ys IH]; simpl.
  - tauto.
  - destruct (Z.eqb_spec y x) as [E|N].
    + split; [discriminate | intros H; exfalso; apply H; auto].
    + destruct (index_of Z.eqb x ys) eqn:Ei.
      * split; [discriminate|]. intros H. exfalso. apply H. right.
        destruct (in_dec Z.eq_dec x ys) as [Hi|Hni]; [exact Hi|]. apply IH in Hni. discriminate.
      * split; [|reflexivity]. intros _ [H|H]; [congruence|]. apply IH in H; auto.
Qed.

Lemma index_of_Some_nth (x : Z) l n :
  index_of Z.eqb x l = Some n -> nth_error l n = Some x.
Proof.
  revert n; induction l as [|y ys IH]; simpl; intros n H; [discriminate|].
  destruct (Z.eqb_spec y x) as [E|N].
  - inversion H; subst; reflexivity.
  - destruct (index_of Z.eqb x ys) eqn:Ei; [|discriminate].
    inversion H; subst. simpl. apply IH; reflexivity.
Qed.

Lemma nth_index_of_NoDup (x : Z) l n :
  NoDup l -> nth_error l n = Some x -> index_of Z.eqb x l = Some n.
Proof.
  revert n; induction l as [|y ys IH]; intros n ND H.
  - destruct n; discriminate.
  - inversion ND as [|? ? Hn ND']; subst. destruct n as [|n]; simpl in *.
    + inversion H; subst. rewrite Z.eqb_refl. reflexivity.
    + destruct (Z.eqb_spec y x) as [E|N].
      * subst. exfalso. apply Hn. eapply nth_error_In; eauto.
      * rewrite (IH n ND' H). reflexivity.
Qed.

Lemma index_of_lt (x : Z) l n : index_of Z.eqb x l = Some n -> (n < length l)%nat.
Proof.
  intros H. apply index_of_Some_nth in H. apply nth_error_Some. congruence.
Qed.

Lemma index_of_app_notin (x : Z) l k :
  ~ In k l ->
  index_of Z.eqb x (l ++ [k]) =
  if Z.eqb k x then Some (length l) else index_of Z.eqb x l.
Proof.
  induction l as [|y ys IH]; intros Hn; simpl.
  - destruct (Z.eqb k x); reflexivity.
  - destruct (Z.eqb_spec y x) as [E|N].
    + subst. destruct (Z.eqb_spec k x) as [E2|N2]; [|reflexivity].
      exfalso; apply Hn; left; congruence.
    + rewrite IH by (intros H; apply Hn; right; exact H).
      destruct (Z.eqb k x); [reflexivity|].
      destruct (index_of Z.eqb x ys); reflexivity.
Qed.

Lemma insert_at_length {A} n (x : A) l : length (insert_at n x l) = S (length l).
Proof.
  revert n; induction l as [|y ys IH]; intros [|n]; simpl; auto.
Qed.

Lemma insert_at_In {A} n (x y : A) l : In y (insert_at n x l) <-> y = x \/ In y l.
Proof.
  revert n; induction l as [|z zs IH]; intros [|n]; simpl.
  - intuition.
  - intuition.
  - intuition.
  - rewrite IH. intuition.
Qed.

Lemma insert_at_NoDup n (x : Z) l : NoDup l -> ~ In x l -> NoDup (insert_at n x l).
Proof.
  revert n; induction l as [|z zs IH]; intros [|n] ND Hn; simpl.
  - constructor; auto.
  - constructor; auto.
  - constructor; auto.
  - inversion ND as [|? ? Hz ND']; subst. constructor.
    + rewrite insert_at_In. intros [E|H]; [subst; apply Hn; left; reflexivity | auto].
    + apply IH; auto. intros H; apply Hn; right; exact H.
Qed.

(* positions after inserting a fresh element at n <= length *)
Lemma index_of_insert_at (x k : Z) l n :
  ~ In k l -> (n <= length l)%nat ->
  index_of Z.eqb x (insert_at n k l) =
  if Z.eqb k x then Some n
  else match index_of Z.eqb x l with
       | Some j => Some (if (n <=? j)%nat then S j else j)
       | None => None
       end.
Proof.
  revert n; induction l as [|y ys IH]; intros n Hn Hle.
  - assert (n = O) by (simpl in Hle; lia). subst. simpl.
    destruct (Z.eqb k x); reflexivity.
  - destruct n as [|n]; simpl.
    + destruct (Z.eqb_spec k x) as [E|N]; [reflexivity|].
      destruct (Z.eqb y x); [reflexivity|].
      destruct (index_of Z.eqb x ys); reflexivity.
    + destruct (Z.eqb_spec y x) as [E|N].
      * subst. destruct (Z.eqb_spec k x) as [E2|N2]; [|reflexivity].
        exfalso; apply Hn; left; congruence.
      * rewrite IH; [| intros H; apply Hn; right; exact H | simpl in Hle; lia].
        destruct (Z.eqb k x); [reflexivity|].
        destruct (index_of Z.eqb x ys) as [j|]; [|reflexivity].
        destruct (Nat.leb_spec n j); destruct (Nat.leb_spec (S n) (S j)); try lia; reflexivity.
Qed.

Lemma remove_at_length {A} n (l : list A) :
  (n < length l)%nat -> S (length (remove_at n l)) = length l.
Proof.
  revert n; induction l as [|y ys IH]; intros n H; simpl in *; [lia|].
  destruct n; simpl; [reflexivity|]. rewrite IH; [reflexivity | lia].
Qed.

Lemma remove_at_In {A} n (y : A) l : In y (remove_at n l) -> In y l.
Proof.
  revert n; induction l as [|z zs IH]; intros n H; simpl in *; [tauto|].
  destruct n as [|n]; simpl in *.
  - right; exact H.
  - destruct H as [H|H]; [left; exact H | right; eapply IH; exact H].
Qed.

Lemma remove_at_NoDup {A} n (l : list A) : NoDup l -> NoDup (remove_at n l).
Proof.
  revert n; induction l as [|z zs IH]; intros n ND; simpl; [constructor|].
  inversion ND; subst. destruct n; [assumption|]. constructor; auto.
  intros H; apply remove_at_In in H; auto.
Qed.

(* positions after deleting position n of a duplicate-free list *)
Lemma index_of_remove_at (x e : Z) l n :
  NoDup l -> nth_error l n = Some e ->
  index_of Z.eqb x (remove_at n l) =
  if Z.eqb e x then None
  else match index_of Z.eqb x l with
       | Some j => Some (if (n <? j)%nat then pred j else j)
       | None => None
       end.
Proof.
  revert n; induction l as [|y ys IH]; intros n ND H.
  - destruct n; discriminate.
  - inversion ND as [|? ? Hy ND']; subst. destruct n as [|n]; simpl in *.
    + inversion H; subst. destruct (Z.eqb_spec e x) as [E|N].
      * subst. apply index_of_None. exact Hy.
      * destruct (index_of Z.eqb x ys); reflexivity.
    + destruct (Z.eqb_spec y x) as [E|N].
      * subst. destruct (Z.eqb_spec e x) as [E2|N2]; [|reflexivity].
        subst. exfalso. apply Hy. eapply nth_error_In; eauto.
      * rewrite (IH n ND' H). destruct (Z.eqb e x); [reflexivity|].
        destruct (index_of Z.eqb x ys) as [j|]; [|reflexivity].
        destruct (Nat.ltb_spec n j); destruct (Nat.ltb_spec (S n) (S j)); try lia; [|reflexivity].
        destruct j; [lia|]. reflexivity.
Qed.

Lemma remove_first_index (x : Z) l :
  remove_first Z.eqb x l =
  match index_of Z.eqb x l with Some n => Some (remove_at n l) | None => None end.
Proof.
  induction l as [|y ys IH]; simpl; [reflexivity|].
  destruct (Z.eqb y x); [reflexivity|].
  rewrite IH. destruct (index_of Z.eqb x ys); reflexivity.
Qed.

Lemma norm_index_range len i k :
  norm_index len i = Some k -> 0 <= k < len.
Proof.
  unfold norm_index. destruct (0 <=? i) eqn:A, (i <? len) eqn:B; simpl;
  try (intros H; inversion H; subst; lia);
  destruct (i <? 0) eqn:C, (0 <=? len + i) eqn:D; simpl; intros H; inversion H; subst; lia.
Qed.

Lemma norm_index_nonneg len i : 0 <= i -> i < len -> norm_index len i = Some i.
Proof.
  intros. unfold norm_index.
  destruct (Z.leb_spec 0 i), (Z.ltb_spec i len); simpl; try lia. reflexivity.
Qed.

Lemma nth_error_Some_lt {A} (l : list A) n x : nth_error l n = Some x -> (n < length l)%nat.
Proof. intros H. apply nth_error_Some. congruence. Qed.

Lemma NoDup_app_intro_single (k : Z) l : NoDup l -> ~ In k l -> NoDup (l ++ [k]).
Proof.
  induction l as [|y ys IH]; intros ND Hn; simpl.
  - constructor; [tauto | constructor].
  - inversion ND as [|? ? Hy ND']; subst. constructor.
    + rewrite in_app_iff. intros [H|[H|[]]]; [auto | subst; apply Hn; left; reflexivity].
    + apply IH; [assumption | intros H; apply Hn; right; exact H].
Qed.

Lemma norm_index_nil i : norm_index 0 i = None.
Proof.
  destruct (norm_index 0 i) as [k|] eqn:E; [|reflexivity].
  apply norm_index_range in E. lia.
Qed.

Lemma py_pop_nil {A} i : @py_pop A i [] = None.
Proof. unfold py_pop. change (zlen (@nil A)) with 0. rewrite norm_index_nil. reflexivity. Qed.
