(* C07: delete() — it never creates a reference, leaves every slot a
   sub-collection of what it was, and empties the deleted object's own
   references. *)
From Coq Require Import ZArith List Bool Arith Lia.
From PyecoreV Require Import Lib.PyBase Lib.PyList Model.Kernel Proofs.PyListFacts Proofs.KernelFacts Proofs.C03Proofs.
Import ListNotations.
Open Scope nat_scope.

(* every object reference present afterwards was present before, slot by slot *)
Definition shrinks (s s' : state) : Prop :=
  forall k b, In (VObj b) (vals s' k) -> In (VObj b) (vals s k).

Lemma shrinks_refl s : shrinks s s.
Proof. intros k b H; exact H. Qed.

Lemma shrinks_trans s1 s2 s3 : shrinks s1 s2 -> shrinks s2 s3 -> shrinks s1 s3.
Proof. intros H1 H2 k b H. apply H1. apply H2. exact H. Qed.

Lemma shrinks_ext s s' : (forall k, vals s' k = vals s k) -> shrinks s s'.
Proof. intros E k b. rewrite E. tauto. Qed.

Lemma shrinks_set_vals s k l :
  (forall b, In (VObj b) l -> In (VObj b) (vals s k)) -> shrinks s (set_vals s k l).
Proof.
  intros Hl k' b. cbn [vals set_vals]. unfold upd.
  destruct (cell_eqb_spec k k') as [E|N]; [subst k'; apply Hl | tauto].
Qed.

Section Del.
Variable m : mm.

Lemma shrinks_uc_clear s f p : shrinks s (uc_clear m s f p).
Proof.
  unfold uc_clear. destruct (f_cont (fd m f)); [|apply shrinks_refl].
  destruct p; apply shrinks_ext; reflexivity.
Qed.

Lemma shrinks_store_none s k : shrinks s (set_store m s k VNone).
Proof.
  apply (shrinks_trans _ (set_vals s k [VNone])); [|apply shrinks_ext; reflexivity].
  apply shrinks_set_vals. intros b [H|[]]. discriminate.
Qed.

Lemma shrinks_set_none_raw s k : shrinks s (set_none_raw m s k).
Proof.
  unfold set_none_raw. destruct (f_isref (fd m (snd k))); [|apply shrinks_store_none].
  eapply shrinks_trans; [apply shrinks_store_none | apply shrinks_uc_clear].
Qed.

Lemma shrinks_coll_remove_raw s k x : shrinks s (coll_remove_raw m s k x).
Proof.
  unfold coll_remove_raw. destruct (vmem (VObj x) (vals s k)); [|apply shrinks_refl].
  eapply shrinks_trans; [apply (shrinks_uc_clear s (snd k) (Some x))|].
  eapply shrinks_trans; [|apply shrinks_ext; reflexivity].
  apply shrinks_set_vals. intros b Hb. apply In_raw_remove in Hb. exact Hb.
Qed.

Lemma shrinks_inv_add s o c : shrinks s (inv_add s o c).
Proof. unfold inv_add. destruct (cmem c (inv s o)); [apply shrinks_refl | apply shrinks_ext; reflexivity]. Qed.

Lemma shrinks_update_opposite_remove s x f y : shrinks s (update_opposite_remove m s x f y).
Proof.
  unfold update_opposite_remove. destruct (f_opp (fd m f)) as [g|].
  - destruct (f_many (fd m g)).
    + destruct (cell_eqb (y, g) (x, f)); [apply shrinks_refl | apply shrinks_coll_remove_raw].
    + apply shrinks_set_none_raw.
  - destruct (cmem (x, f) (inv s y)); [apply shrinks_ext; reflexivity | apply shrinks_inv_add].
Qed.

Lemma shrinks_unlink_elem s x f v : shrinks s (unlink_elem m s x f v).
Proof.
  unfold unlink_elem. destruct (f_isref (fd m f)); [|apply shrinks_refl].
  destruct (obj_of v); [|apply shrinks_refl].
  eapply shrinks_trans; [apply shrinks_uc_clear | apply shrinks_update_opposite_remove].
Qed.

Lemma shrinks_coll_remove_full s k v : shrinks s (coll_remove_full m s k v).
Proof.
  destruct k as [x f]. unfold coll_remove_full.
  set (s1 := if f_isref (fd m f) then
               match obj_of v with
               | Some y => update_opposite_remove m (uc_clear m s f (Some y)) x f y
               | None => s end else s).
  assert (H1 : shrinks s s1).
  { unfold s1. destruct (f_isref (fd m f)); [|apply shrinks_refl]. destruct (obj_of v); [|apply shrinks_refl].
    eapply shrinks_trans; [apply shrinks_uc_clear | apply shrinks_update_opposite_remove]. }
  eapply shrinks_trans; [exact H1|].
  eapply shrinks_trans; [|apply shrinks_ext; reflexivity].
  apply shrinks_set_vals. intros b Hb. apply In_raw_remove in Hb. exact Hb.
Qed.

Lemma shrinks_set_none_full s k : shrinks s (set_none_full m s k).
Proof.
  destruct k as [x f]. unfold set_none_full.
  destruct (f_isref (fd m f)); cbn [negb]; [|apply shrinks_store_none].
  set (s2 := uc_clear m (set_store m s (x, f) VNone) f (obj_of (single s (x, f)))).
  assert (H2 : shrinks s s2).
  { eapply shrinks_trans; [apply shrinks_store_none | apply shrinks_uc_clear]. }
  destruct (f_opp (fd m f)) as [g|].
  - destruct (obj_of (single s (x, f))) as [q|]; [|exact H2].
    destruct (f_many (fd m g)).
    + eapply shrinks_trans; [exact H2 | apply shrinks_coll_remove_raw].
    + destruct (cell_eqb (q, g) (x, f)); [exact H2|].
      eapply shrinks_trans; [exact H2 | apply shrinks_set_none_raw].
  - destruct (obj_of (single s (x, f))); [|exact H2].
    eapply shrinks_trans; [exact H2 | apply shrinks_ext; reflexivity].
Qed.

(* set_full with None is the unset procedure on the value store *)
Lemma shrinks_set_full_none s k : shrinks s (snd (set_full m s k VNone)).
Proof.
  destruct k as [x f]. unfold set_full. cbn [check_single conforms negb obj_of].
  destruct (f_isref (fd m f)); cbn [negb snd]; [|apply shrinks_store_none].
  set (s2 := update_container m (set_store m s (x, f) VNone) x f None (obj_of (single s (x, f)))).
  assert (H2 : shrinks s s2).
  { eapply shrinks_trans; [apply shrinks_store_none|].
    unfold s2, update_container. destruct (f_cont (fd m f)); cbn [negb]; [|apply shrinks_refl].
    destruct (obj_of (single s (x, f))); apply shrinks_ext; reflexivity. }
  destruct (f_opp (fd m f)) as [g|]; cbn [snd].
  - destruct (obj_of (single s (x, f))) as [q|]; [|exact H2].
    destruct (f_many (fd m g)).
    + eapply shrinks_trans; [exact H2 | apply shrinks_coll_remove_raw].
    + destruct (cell_eqb (q, g) (x, f)); [exact H2|].
      eapply shrinks_trans; [exact H2 | apply shrinks_set_none_raw].
  - destruct (obj_of (single s (x, f))); [|exact H2].
    eapply shrinks_trans; [exact H2 | apply shrinks_ext; reflexivity].
Qed.

Lemma shrinks_fold_unlink s x f l : shrinks s (fold_left (fun acc v => unlink_elem m acc x f v) l s).
Proof.
  revert s; induction l as [|v l IH]; intros s; simpl; [apply shrinks_refl|].
  eapply shrinks_trans; [apply shrinks_unlink_elem | apply IH].
Qed.

Lemma shrinks_coll_clear_full s k : shrinks s (coll_clear_full m s k).
Proof.
  destruct k as [x f]. unfold coll_clear_full. destruct (vals s (x, f)) as [|a l]; [apply shrinks_refl|].
  eapply shrinks_trans; [apply (shrinks_fold_unlink s x f (a :: l))|].
  eapply shrinks_trans; [|apply shrinks_ext; reflexivity].
  apply shrinks_set_vals. intros b [].
Qed.

Lemma shrinks_delete_step x s k : shrinks s (delete_step m x s k).
Proof.
  destruct k as [owner f]. unfold delete_step. destruct (f_many (fd m f)).
  - destruct (owner =? x); [apply shrinks_coll_clear_full|].
    destruct (vmem (VObj x) (vals s (owner, f))); [apply shrinks_coll_remove_full | apply shrinks_refl].
  - destruct ((match single s (owner, f) with VObj y => y =? x | _ => false end) || (owner =? x));
      [apply shrinks_set_full_none | apply shrinks_refl].
Qed.

Lemma shrinks_fold_delete_step x l s : shrinks s (fold_left (delete_step m x) l s).
Proof.
  revert s; induction l as [|k l IH]; intros s; simpl; [apply shrinks_refl|].
  eapply shrinks_trans; [apply shrinks_delete_step | apply IH].
Qed.

Theorem delete_only_removes fuel s x r : shrinks s (delete_obj fuel m s x r).
Proof.
  revert s x r; induction fuel as [|fu IH]; intros s x r; simpl; [apply shrinks_refl|].
  eapply shrinks_trans; [|apply shrinks_fold_delete_step].
  destruct r; [|apply shrinks_refl].
  generalize (econtents m s x). intros l. revert s.
  induction l as [|c l IHl]; intros s; simpl; [apply shrinks_refl|].
  eapply shrinks_trans; [apply IH | apply IHl].
Qed.

(* attribute slots are not touched at all by the removal procedures used by delete *)

(* the deleted object's own references end up empty *)
Lemma delete_step_own_empty x s f :
  forall b, ~ In (VObj b) (vals (delete_step m x s (x, f)) (x, f)).
Proof.
  intros b. unfold delete_step. rewrite Nat.eqb_refl.
  destruct (f_many (fd m f)) eqn:Hm.
  - unfold coll_clear_full. destruct (vals s (x, f)) as [|a l] eqn:El; [rewrite El; tauto|].
    cbn [vals notify push_log set_vals]. rewrite upd_same. tauto.
  - rewrite orb_true_r.
    (* the slot is written None first, later steps only shrink it *)
    unfold set_full. cbn [check_single conforms negb obj_of].
    destruct (f_isref (fd m f)); cbn [negb snd].
    + set (s1 := set_store m s (x, f) VNone).
      assert (H1 : ~ In (VObj b) (vals s1 (x, f))).
      { unfold s1. cbn [vals set_store notify push_log set_isset set_vals]. rewrite upd_same.
        intros [H|[]]; discriminate. }
      set (s2 := update_container m s1 x f None (obj_of (single s (x, f)))).
      assert (H2 : shrinks s1 s2).
      { unfold s2, update_container. destruct (f_cont (fd m f)); cbn [negb]; [|apply shrinks_refl].
        destruct (obj_of (single s (x, f))); apply shrinks_ext; reflexivity. }
      intros Hin. apply H1. apply H2.
      destruct (f_opp (fd m f)) as [g|]; cbn [snd] in Hin.
      * destruct (obj_of (single s (x, f))) as [q|]; [|exact Hin].
        destruct (f_many (fd m g)).
        -- apply (shrinks_coll_remove_raw s2 (q, g) x). exact Hin.
        -- destruct (cell_eqb (q, g) (x, f)); [exact Hin|].
           apply (shrinks_set_none_raw s2 (q, g)). exact Hin.
      * destruct (obj_of (single s (x, f))); exact Hin.
    + cbn [vals set_store notify push_log set_isset set_vals]. rewrite upd_same.
      intros [H|[]]; discriminate.
Qed.

Theorem delete_empties_own_references fuel s x r f b :
  In f (ref_feats m x) ->
  ~ In (VObj b) (vals (delete_obj (S fuel) m s x r) (x, f)).
Proof.
  intros Hf. simpl.
  set (s1 := if r then fold_left (fun acc c => delete_obj fuel m acc c true) (econtents m s x) s else s).
  set (own := map (fun f0 => (x, f0)) (ref_feats m x)).
  set (rest := filter (fun c => negb (cmem c own)) (inv s1 x)).
  (* split the walk at the step that handles (x, f) *)
  assert (Hin : In (x, f) own) by (unfold own; apply in_map; exact Hf).
  apply in_split in Hin. destruct Hin as [l1 [l2 El]].
  rewrite El. rewrite <- app_assoc. rewrite fold_left_app. simpl.
  set (sa := fold_left (delete_step m x) l1 s1).
  intros Hb.
  apply (shrinks_fold_delete_step x (l2 ++ rest) (delete_step m x sa (x, f))) in Hb.
  exact (delete_step_own_empty x sa f b Hb).
Qed.

End Del.
