(* C07 along histories of metamodels WITH containment: the premise "C01's invariant holds in the reached
   state" of Proofs/C07Full.v's gen_history_delete_* is discharged by the global invariant (OwnAll.WF_history). *)
From Coq Require Import ZArith List Bool Arith.
From PyecoreV Require Import Lib.PyBase Lib.PyList Model.Kernel Proofs.KernelFacts Proofs.WFBase
     Proofs.C01Proofs Proofs.C01Full Proofs.C07Proofs Proofs.C07Full Proofs.SymLink Proofs.OwnAll Proofs.WFCorollaries.
Import ListNotations.

Section Hist.
Variable m : mm.
Hypothesis W : wf_mm m.
Hypothesis Hty : wf_typed m.
Hypothesis Dn : ref_defaults_none m.
Variable ops : list op.
Hypothesis Hfit : Forall (C01Full.op_fits m) ops.
Hypothesis Happl : Forall (op_appl m) ops.

Let s0 := fold_left (next m) ops (init_state m).

Lemma hist_Inv : Inv m s0.
Proof. apply (reach_Inv m W Dn ops). exact Hfit. Qed.

Theorem wf_history_delete_no_dangling x r (d a : oid) (f : fid) :
  In d (deleted m (S (length (ocls m))) s0 x r) -> refslot m f ->
  ~ In (VObj d) (vals (next m s0 (ODelete x r)) (a, f)).
Proof.
  apply (gen_history_delete_no_dangling m (wf_mm_wf_opp m W) Hty Dn ops Hfit Happl x r d a f hist_Inv).
Qed.

Theorem wf_history_delete_frame x r (a : oid) (f : fid) :
  ~ In a (deleted m (S (length (ocls m))) s0 x r) -> refslot m f ->
  vals (next m s0 (ODelete x r)) (a, f) =
  fold_left (fun l d => Ex m d f l) (deleted m (S (length (ocls m))) s0 x r) (vals s0 (a, f)).
Proof.
  apply (gen_history_delete_frame m (wf_mm_wf_opp m W) Hty Dn ops Hfit Happl x r a f hist_Inv).
Qed.

(* every deleted object ends without container (from the WF state reached) *)
Theorem wf_history_deleted_uncontained x r d :
  In d (deleted m (S (length (ocls m))) s0 x r) ->
  cont (next m s0 (ODelete x r)) d = None.
Proof.
  intros Hd. unfold next, step; cbn [fst snd].
  apply (delete_rec_uncontained m W); [| | | |exact Hd].
  - apply (reach_WF m W Dn ops). exact Hfit.
  - apply (uniq_ok_history m (wf_mm_wf_opp m W) ops Dn Hfit).
  - apply (inv_ok_history m (wf_mm_wf_opp m W) ops Dn Hfit).
  - apply (decl_ok_history m Hty ops Dn Happl).
Qed.
End Hist.
