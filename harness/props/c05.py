"""C05 — kernel property: see DESIGN.md section 5 and harness/kprop.py."""
from harness import kgen, kprop
from harness.common import scenario_replay as common_scenario_replay

PID = 'C05'


def run(ctx, out):
    kprop.run(ctx, out, PID, ['C05'], {'outcome','values','log'}, 2000, 40000, pool=None, weights=None, p_wrong=0.05)


def replay(ctx, rep):
    from harness import krun
    case = rep['case']
    if case.get('scenario'):
        return common_scenario_replay(ctx, rep, {'reactive': reactive_scenarios, 'slices': slice_and_tuple_scenarios})
    r = krun.Run(case, ['C05']).run()
    for s in r.steps:
        print(s['op'], '->', s['outcome'])
    if r.failure:
        print('REPRODUCED', r.failure['property'], r.failure['clause'], r.failure['detail'])
        return 1
    print('not reproduced')
    return 0


# ---------------------------------------------------------------------------
# changes made from inside a notification callback are changes too: each is reported exactly once
# to every observer of the object (oracle on the implementation only; the kernel model has no callbacks)

def reactive_scenarios(ctx, out):
    from harness import common
    common.use_repo()
    from pyecore import ecore as E
    from pyecore.notification import EObserver, Kind
    rng = common.rng_for(ctx.seed, 'C05:reactive')
    n = 60 if ctx.tier != 'thorough' else 1500
    A = E.EClass('A')
    A.eStructuralFeatures.append(E.EAttribute('name', E.EString))
    A.eStructuralFeatures.append(E.EAttribute('count', E.EInt))
    A.eStructuralFeatures.append(E.EAttribute('tags', E.EString, upper=-1))
    A.eStructuralFeatures.append(E.EAttribute('bag', E.EInt, upper=-1, unique=False))

    class Mirror(EObserver):
        def __init__(self, obj):
            super().__init__()
            self.one = {'name': obj.name, 'count': obj.count}
            self.many = {'tags': list(obj.tags), 'bag': list(obj.bag)}
            self.n = 0
            self.observe(obj)

        def notifyChanged(self, nt):
            self.n += 1
            f = nt.feature.name
            if nt.kind in (Kind.SET, Kind.UNSET):
                self.one[f] = nt.new
            elif nt.kind is Kind.ADD:
                if not (f == 'tags' and nt.new in self.many[f]):
                    self.many[f].append(nt.new)
            elif nt.kind is Kind.ADD_MANY:
                for v in nt.new:
                    if not (f == 'tags' and v in self.many[f]):
                        self.many[f].append(v)
            elif nt.kind is Kind.REMOVE:
                if nt.old in self.many[f]:
                    self.many[f].remove(nt.old)
            elif nt.kind is Kind.REMOVE_MANY:
                for v in nt.old:
                    if v in self.many[f]:
                        self.many[f].remove(v)

    class Reactor(EObserver):
        """reacts to a change by an ordinary, accepted change (terminating rules)"""
        def __init__(self, obj, rules):
            super().__init__()
            self.rules = rules
            self.observe(obj)

        def notifyChanged(self, nt):
            o, f = nt.notifier, nt.feature.name
            if 'strip' in self.rules and f == 'name' and nt.kind is Kind.SET and nt.new != nt.new.strip():
                o.name = nt.new.strip()
            if 'even' in self.rules and f == 'count' and nt.kind is Kind.SET and nt.new % 2:
                o.count = nt.new + 1
            if 'lower' in self.rules and f == 'tags' and nt.kind is Kind.ADD and nt.new.lower() not in o.tags:
                o.tags.append(nt.new.lower())
            if 'down' in self.rules and f == 'bag' and nt.kind is Kind.ADD and nt.new > 0:
                o.bag.append(nt.new - 1)
            if 'cross' in self.rules and f == 'name' and nt.kind is Kind.SET:
                o.count = len(nt.new) * 2
            if 'unlower' in self.rules and f == 'tags' and nt.kind is Kind.REMOVE and nt.old.upper() in o.tags \
                    and nt.old.upper() != nt.old:
                o.tags.remove(nt.old.upper())

    names = ['a', ' b ', 'Cc', '  d', '']
    tags = ['x', 'Y', 'Zz', 'y', 'q']
    cnt = nested = 0
    for it in range(n):
        o = A()
        rules = set(r for r in ('strip', 'even', 'lower', 'down', 'cross', 'unlower') if rng.random() < 0.5)
        mirror = Mirror(o)            # registered first: told first about each change
        Reactor(o, rules)
        second = Mirror(o)            # registered last: sees nested changes before the outer one; counts only
        hist = []
        for step in range(rng.randrange(2, 9)):
            k = rng.choice(['name', 'count', 'tag+', 'tag-', 'bag+', 'bag-', 'tags=', 'unset'])
            before = mirror.n
            try:
                if k == 'name':
                    v = rng.choice(names); o.name = v
                elif k == 'count':
                    v = rng.randrange(0, 6); o.count = v
                elif k == 'tag+':
                    v = rng.choice(tags); o.tags.append(v)
                elif k == 'tag-':
                    v = rng.choice(tags)
                    if v in o.tags:
                        o.tags.remove(v)
                elif k == 'bag+':
                    v = rng.randrange(0, 4); o.bag.append(v)
                elif k == 'bag-':
                    v = rng.randrange(0, 4)
                    if v in o.bag:
                        o.bag.remove(v)
                elif k == 'tags=':
                    v = rng.sample(tags, 2); o.tags.extend(v)
                else:
                    v = None; o.name = None
                raised = None
            except Exception as e:  # noqa
                raised = type(e).__name__
            hist.append([k, v, raised])
            cnt += 1
            nested += max(0, mirror.n - before - 1)
            real = {'name': o.name, 'count': o.count, 'tags': sorted(o.tags), 'bag': sorted(o.bag)}
            seen = {'name': mirror.one['name'], 'count': mirror.one['count'],
                    'tags': sorted(mirror.many['tags']), 'bag': sorted(mirror.many['bag'])}
            case = {'scenario': 'reactive', 'seed': ctx.seed, 'tier': ctx.tier, 'rules': sorted(rules), 'history': [list(h) for h in hist]}
            if real != seen:
                d = sorted(kk for kk in real if real[kk] != seen[kk])
                out.fail({'property': 'C05', 'clause': 'change-from-callback-not-mirrored', 'features': d},
                         f'observer told first about every change holds {[(kk, seen[kk]) for kk in d]} but the object has '
                         f'{[(kk, real[kk]) for kk in d]} after {hist[-1]} with reacting rules {sorted(rules)}', case)
                break
            if mirror.n != second.n:
                out.fail({'property': 'C05', 'clause': 'observers-told-different-number-of-changes'},
                         f'first observer received {mirror.n} notifications, last observer {second.n} after {hist[-1]}', case)
                break
    out.coverage['reactive_calls'] = cnt
    out.coverage['reactive_nested_changes'] = nested


_kernel_run = run


def run(ctx, out):   # noqa: F811
    _kernel_run(ctx, out)
    reactive_scenarios(ctx, out)


# ---------------------------------------------------------------------------
# list-based attribute collections written by SLICE (the sizes for which pyecore reports a consistent change), and
# attributes whose values are tuples: the observer's copy, updated from the notifications alone, has the content the
# feature has - same elements with the same multiplicity, and each element of the same Python type
# (oracle on the implementation only; the kernel model has neither slices nor tuple values)

def slice_and_tuple_scenarios(ctx, out):
    from harness import common
    common.use_repo()
    from pyecore import ecore as E
    from pyecore.notification import EObserver, Kind
    rng = common.rng_for(ctx.seed, 'C05:slices')
    n = 80 if ctx.tier != 'thorough' else 1500
    cnt = 0
    Point = E.EDataType('Point', tuple)
    # the notifications of a slice assignment are compared with the Coq model (Model/Slice.v elist_setslice, extracted
    # as run_slicenotif; theorems C05_slice_assignment_* in Props/C05.v): kind and payload of every notification
    model = common.Model()
    KCODE = {'REMOVE': 1, 'REMOVE_MANY': 2, 'ADD': 3, 'ADD_MANY': 4}
    tie = {'compared': 0, 'empty_rhs': 0, 'refused': 0}

    def model_slice(i, j, ys, before):
        bt = lambda v: [0, 0] if v is None else [1, v]   # noqa: E731
        mo = model.ask('slicenotif', bt(i) + bt(j) + [len(ys)] + list(ys) + [len(before)] + list(before))
        if not mo or mo[0] != 0:
            return ('refused', None, None)
        nl = mo[1]
        after = mo[2:2 + nl]
        k = 3 + nl
        ns = []
        for _ in range(mo[2 + nl]):
            kind, cntk = mo[k], mo[k + 1]
            ns.append((kind, mo[k + 2:k + 2 + cntk]))
            k += 2 + cntk
        return ('ok', after, ns)

    def impl_notifs(raw, tok):
        res = []
        for kind, old, new in raw:
            if kind in ('REMOVE', 'ADD'):
                v = old if kind == 'REMOVE' else new
                if isinstance(v, list) and not v:
                    res.append((5, []))                  # ADD whose payload is the empty list itself
                else:
                    res.append((KCODE[kind], [tok(v)]))
            elif kind in ('REMOVE_MANY', 'ADD_MANY'):
                res.append((KCODE[kind], [tok(x) for x in (old if kind == 'REMOVE_MANY' else new)]))
            else:
                res.append((9, [kind]))
        return res
    for it in range(n):
        A = E.EClass('A')
        A.eStructuralFeatures.append(E.EAttribute('ints', E.EInt, upper=-1, unique=False))
        pts_unique = rng.random() < 0.5
        A.eStructuralFeatures.append(E.EAttribute('pts', Point, upper=-1, unique=pts_unique))
        A.eStructuralFeatures.append(E.EAttribute('pt', Point))
        # a non-unique plain reference list over a small pool: slice assignments whose new values OVERLAP the replaced ones
        Bc = E.EClass('B')
        A.eStructuralFeatures.append(E.EReference('refs', Bc, upper=-1, unique=False))
        pool = [Bc() for _ in range(4)]
        pname = {id(b): 'b%d' % i for i, b in enumerate(pool)}
        a = A()
        mirror = {'ints': [], 'pts': [], 'pt': None, 'refs': []}
        log = []

        raw = []

        def cb(nf):
            f = nf.feature.name
            log.append((nf.kind.name, f, repr(nf.old), repr(nf.new)))
            raw.append((nf.kind.name, nf.old, nf.new))
            if nf.kind in (Kind.SET, Kind.UNSET):
                mirror[f] = nf.new
            elif nf.kind in (Kind.ADD, Kind.ADD_MANY):
                for x in ([nf.new] if nf.kind == Kind.ADD else list(nf.new)):
                    if not (f == 'pts' and pts_unique and x in mirror[f]):     # a set insertion for a unique feature
                        mirror[f].append(x)
            elif nf.kind == Kind.REMOVE:
                mirror[f].remove(nf.old)
            elif nf.kind == Kind.REMOVE_MANY:
                for x in list(nf.old):
                    mirror[f].remove(x)
        EObserver(a, notifyChanged=cb)
        hist = []
        bad = None
        for step in range(rng.randrange(3, 10)):
            k = rng.choice(['slice', 'slice', 'append', 'extend', 'pt', 'pts-append', 'pts-remove', 'pts-extend', 'pop', 'bad-batch', 'bad-batch',
                            'rslice', 'rslice', 'rappend'])
            try:
                if k == 'rslice':
                    L = a.refs
                    i = rng.randrange(0, len(L) + 1)
                    j = rng.randrange(i, len(L) + 1)
                    vals = [rng.choice(pool) for _ in range(rng.randrange(1, 4))]
                    ptok = {id(b): k2 for k2, b in enumerate(pool)}
                    before = [ptok[id(b)] for b in L]
                    if rng.random() < 0.3:                        # bounds as a caller may write them: negative, absent, past the end
                        i, j = rng.choice([None, i, i - len(L) - 1 if len(L) else i]), rng.choice([None, j, j + 2])
                    r0 = len(raw)
                    a.refs[i:j] = vals
                    hist.append(['refs[%r:%r] =' % (i, j), [pname[id(b)] for b in vals]])
                    mo = model_slice(i, j, [ptok[id(b)] for b in vals], before)
                    got = ('ok', [ptok[id(b)] for b in a.refs], impl_notifs(raw[r0:], lambda b: ptok[id(b)]))
                    tie['compared'] += 1
                    if mo != got:
                        out.diff(f'slice-notification model vs impl after {hist[-1]} on {before}: model {mo} impl {got}',
                                 {'scenario': 'slices', 'seed': ctx.seed, 'tier': ctx.tier, 'history': hist})
                elif k == 'rappend':
                    b = rng.choice(pool)
                    a.refs.append(b)
                    hist.append(['refs.append', pname[id(b)]])
                elif k == 'slice':
                    L = a.ints
                    i = rng.randrange(0, len(L) + 1)
                    j = rng.randrange(i, len(L) + 1)
                    m = rng.randrange(1, 4)                       # a NON-EMPTY right-hand side ...
                    if j == i and rng.random() < 0.5 and len(L):
                        j = min(len(L), i + 1)
                    vals = [rng.randrange(0, 5) for _ in range(m)]
                    before = list(L)
                    r0 = len(raw)
                    a.ints[i:j] = vals
                    hist.append(['ints[%d:%d] =' % (i, j), vals])
                    mo = model_slice(i, j, vals, before)
                    got = ('ok', list(a.ints), impl_notifs(raw[r0:], lambda v: v))
                    tie['compared'] += 1
                    if mo != got:
                        out.diff(f'slice-notification model vs impl after {hist[-1]} on {before}: model {mo} impl {got}',
                                 {'scenario': 'slices', 'seed': ctx.seed, 'tier': ctx.tier, 'history': hist})
                elif k == 'append':
                    v = rng.randrange(0, 5)
                    a.ints.append(v)
                    hist.append(['ints.append', v])
                elif k == 'extend':
                    vals = [rng.randrange(0, 5) for _ in range(rng.randrange(1, 3))]
                    a.ints.extend(vals)
                    hist.append(['ints.extend', vals])
                elif k == 'pop' and len(a.ints):
                    i = rng.randrange(len(a.ints))
                    a.ints.pop(i)
                    hist.append(['ints.pop', i])
                elif k == 'pt':
                    v = rng.choice([(1, 2), (), (3,), None, (1, 2)])
                    a.pt = v
                    hist.append(['pt =', repr(v)])
                elif k == 'pts-append':
                    v = rng.choice([(1, 2), (), (3,), (4, 5, 6)])
                    a.pts.append(v)
                    hist.append(['pts.append', repr(v)])
                elif k == 'pts-extend':
                    vals = [rng.choice([(1, 2), (7,), (8, 9)]) for _ in range(rng.randrange(1, 3))]
                    a.pts.extend(vals)
                    hist.append(['pts.extend', repr(vals)])
                elif k == 'bad-batch':
                    # a batch whose LATER value is outside the type: refused as a whole, nothing stored, nothing reported
                    which = rng.choice(['ints', 'pts'])
                    vals = ([rng.randrange(5), rng.randrange(5), 'x'] if which == 'ints' else [(9, 9), (8,), 'x'])
                    how = rng.choice(['extend', 'iadd', 'assign'])
                    try:
                        c = a.eGet(which)
                        if how == 'extend':
                            c.extend(vals)
                        elif how == 'iadd':
                            c += vals
                        else:
                            setattr(a, which, list(c) + vals)
                        hist.append([which + '.' + how, repr(vals), 'accepted'])
                    except E.BadValueError:
                        hist.append([which + '.' + how, repr(vals), 'BadValueError'])
                elif k == 'pts-remove' and len(a.pts):
                    v = rng.choice(list(a.pts))
                    a.pts.remove(v)
                    hist.append(['pts.remove', repr(v)])
                else:
                    continue
            except Exception as e:  # noqa
                bad = ('call-raised', f'{k}: {type(e).__name__}: {e}')
                break
            cnt += 1
            for f in ('ints', 'pts'):
                have, seen = list(a.eGet(f)), list(mirror[f])
                if sorted(map(repr, have)) != sorted(map(repr, seen)):
                    bad = ('mirror-content', f'a.{f} holds {have!r}, the observer built {seen!r} from {log[-3:]}')
            if not bad and sorted(pname[id(b)] for b in a.refs) != sorted(pname[id(b)] for b in mirror['refs']):
                bad = ('mirror-content', f'a.refs holds {[pname[id(b)] for b in a.refs]}, the observer built '
                                         f'{[pname[id(b)] for b in mirror["refs"]]} from {log[-3:]}')
            if not bad and (a.pt != mirror['pt'] or type(a.pt) is not type(mirror['pt'])):
                bad = ('mirror-content', f'a.pt is {a.pt!r}, the observer was told {mirror["pt"]!r} ({log[-1:]})')
            if bad:
                break
        if bad:
            out.fail({'property': 'C05', 'clause': bad[0], 'scenario': 'slices'}, f'after {hist[-1] if hist else None}: {bad[1]}',
                     {'scenario': 'slices', 'seed': ctx.seed, 'tier': ctx.tier, 'history': hist})
    # tie only (no mirror: `c[a:b] = []` is the known finding): empty right-hand sides and refused calls, every bound
    for it in range(60 if ctx.tier != 'thorough' else 1500):
        A = E.EClass('A')
        A.eStructuralFeatures.append(E.EAttribute('ints', E.EInt, upper=-1, unique=False))
        a = A()
        before = [rng.randrange(0, 5) for _ in range(rng.randrange(0, 5))]
        a.ints.extend(before)
        raw = []
        EObserver(a, notifyChanged=lambda nf: raw.append((nf.kind.name, nf.old, nf.new)))
        nb = len(before)
        i = rng.choice([None] + list(range(-nb - 2, nb + 3)))
        j = rng.choice([None] + list(range(-nb - 2, nb + 3)))
        refused = rng.random() < 0.4
        vals = [rng.randrange(0, 5) for _ in range(rng.randrange(0, 3))] + ['x'] + [rng.randrange(0, 5) for _ in range(rng.randrange(0, 2))] \
            if refused else []
        try:
            a.ints[i:j] = vals
            got = ('ok', list(a.ints), impl_notifs(raw, lambda v: v))
        except E.BadValueError:
            got = ('refused', None, None) if (list(a.ints) == before and not raw) else ('refused-but-changed', list(a.ints), raw)
        mo = model_slice(i, j, [(-77777 if v == 'x' else v) for v in vals], before)
        tie['refused' if refused else 'empty_rhs'] += 1
        if mo != got:
            out.diff(f'slice-notification model vs impl for ints[{i}:{j}] = {vals} on {before}: model {mo} impl {got}',
                     {'scenario': 'slices', 'seed': ctx.seed, 'tier': ctx.tier, 'history': [['ints[%r:%r] =' % (i, j), vals, before]]})
    model.close()
    out.coverage['slice_and_tuple_calls_mirrored'] = cnt
    out.coverage['slice_notifications_compared_with_model'] = tie


_run_r = run


def run(ctx, out):   # noqa: F811
    _run_r(ctx, out)
    slice_and_tuple_scenarios(ctx, out)
