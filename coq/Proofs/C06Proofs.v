(* C06 - undo/redo of pyecore's commands (Model/Commands.v).
   Part A: the CommandStack (list + stack_index) refines a pair of lists
           (done, undone); executing after an undo discards the undone commands.
   Part B: per command kind, on the kernel model: undo after execute restores
           the observable state, redo after that undo restores the state after
           the command (Set on attributes and plain references, Add/Remove on
           attribute collections).
   Part C: an invariant of the (done, undone) machine for words over the covered
           kinds; k undos followed by k redos is the identity. *)
From Coq Require Import ZArith List Bool Arith Lia.
From PyecoreV Require Import Lib.PyBase Lib.PyList Model.Kernel Model.KernelIO Model.Commands
     Proofs.PyListFacts Proofs.KernelFacts.
Import ListNotations.
Open Scope Z_scope.

(* ====================================================================== *)
(* Python list facts: insert and pop at the same in-range position invert  *)
(* ====================================================================== *)

Lemma nth_error_insert_at {A} n (x : A) l :
  (n <= length l)%nat -> nth_error (insert_at n x l) n = Some x.
Proof.
  revert l; induction n as [|n IH]; intros l H.
  - destruct l; reflexivity.
  - destruct l as [|y ys]; simpl in *; [lia|]. apply IH. lia.
Qed.

Lemma remove_at_insert_at {A} n (x : A) l :
  (n <= length l)%nat -> remove_at n (insert_at n x l) = l.
Proof.
  revert l; induction n as [|n IH]; intros l H.
  - destruct l; reflexivity.
  - destruct l as [|y ys]; simpl in *; [lia|]. rewrite IH; [reflexivity | lia].
Qed.

Lemma insert_at_remove_at {A} n (x : A) l :
  nth_error l n = Some x -> insert_at n x (remove_at n l) = l.
Proof.
  revert n; induction l as [|y ys IH]; intros n H.
  - destruct n; discriminate.
  - destruct n as [|n]; simpl in *.
    + inversion H; subst. destruct ys; reflexivity.
    + destruct ys as [|z zs].
      * destruct n; discriminate.
      * simpl. f_equal. apply (IH n H).
Qed.

Lemma insert_at_end {A} (x : A) l : insert_at (length l) x l = l ++ [x].
Proof. induction l as [|y ys IH]; simpl; [reflexivity | rewrite IH; reflexivity]. Qed.

Lemma clamp_index_range len i : 0 <= len -> 0 <= clamp_index len i <= len.
Proof. intros H. unfold clamp_index. destruct (Z.ltb_spec i 0); lia. Qed.

Lemma clamp_index_id len i : 0 <= i <= len -> clamp_index len i = i.
Proof. intros H. unfold clamp_index. destruct (Z.ltb_spec i 0); lia. Qed.

Lemma py_insert_clamp {A} i (x : A) l : py_insert (clamp_index (zlen l) i) x l = py_insert i x l.
Proof.
  unfold py_insert. rewrite (clamp_index_id (zlen l) (clamp_index (zlen l) i)); [reflexivity|].
  apply clamp_index_range. apply zlen_nonneg.
Qed.

Lemma py_pop_insert {A} i (x : A) l :
  0 <= i <= zlen l -> py_pop i (py_insert i x l) = Some (x, l).
Proof.
  intros H. unfold py_insert. rewrite clamp_index_id by exact H.
  assert (Hn : (Z.to_nat i <= length l)%nat) by (unfold zlen in H; lia).
  unfold py_pop.
  assert (Hl : zlen (insert_at (Z.to_nat i) x l) = zlen l + 1).
  { unfold zlen. rewrite insert_at_length. lia. }
  rewrite Hl. rewrite norm_index_nonneg by lia.
  rewrite nth_error_insert_at by exact Hn. rewrite remove_at_insert_at by exact Hn. reflexivity.
Qed.

Lemma py_pop_nonneg {A} i (l : list A) w l' :
  0 <= i -> py_pop i l = Some (w, l') ->
  i < zlen l /\ nth_error l (Z.to_nat i) = Some w /\ l' = remove_at (Z.to_nat i) l.
Proof.
  intros Hi H. unfold py_pop in H.
  destruct (norm_index (zlen l) i) as [k|] eqn:E; [|discriminate].
  assert (k = i).
  { unfold norm_index in E. destruct (Z.leb_spec 0 i); [|lia]. destruct (Z.ltb_spec i (zlen l)); simpl in E.
    - inversion E; reflexivity.
    - destruct (Z.ltb_spec i 0); [lia|discriminate]. }
  subst k. pose proof (norm_index_range _ _ _ E) as R.
  destruct (nth_error l (Z.to_nat i)) as [y|] eqn:N; [|discriminate].
  inversion H; subst. repeat split; [lia].
Qed.

Lemma py_insert_pop {A} i (l : list A) w l' :
  0 <= i -> py_pop i l = Some (w, l') -> py_insert i w l' = l.
Proof.
  intros Hi H. destruct (py_pop_nonneg i l w l' Hi H) as (Hlt & N & E). subst l'.
  unfold py_insert.
  assert (Hlen : zlen (remove_at (Z.to_nat i) l) = zlen l - 1).
  { pose proof (remove_at_length (Z.to_nat i) l) as R. unfold zlen in *. lia. }
  rewrite Hlen. rewrite clamp_index_id by lia. apply insert_at_remove_at. exact N.
Qed.

Lemma py_insert_len {A} (x : A) l : py_insert (zlen l) x l = l ++ [x].
Proof.
  unfold py_insert. rewrite clamp_index_id by (pose proof (zlen_nonneg l); lia).
  unfold zlen. rewrite Nat2Z.id. apply insert_at_end.
Qed.

Lemma py_pop_norm {A} i (l : list A) : py_pop i l = match norm_index (zlen l) i with
                                                     | Some k => py_pop k l
                                                     | None => None
                                                     end.
Proof.
  unfold py_pop. destruct (norm_index (zlen l) i) as [k|] eqn:E; [|reflexivity].
  pose proof (norm_index_range _ _ _ E) as R. rewrite (norm_index_nonneg (zlen l) k) by lia. reflexivity.
Qed.

Lemma py_get_norm {A} i (l : list A) w :
  py_get i l = Some w -> exists k, norm_index (zlen l) i = Some k /\ nth_error l (Z.to_nat k) = Some w.
Proof.
  unfold py_get. destruct (norm_index (zlen l) i) as [k|]; [|discriminate]. intros H. exists k. auto.
Qed.

(* the position Remove.do_execute computes from a (possibly negative) valid index *)
Lemma norm_index_neg_shift len i k :
  norm_index len i = Some k -> (if i <? 0 then i + len else i) = k.
Proof.
  unfold norm_index. intros H.
  destruct (Z.leb_spec 0 i); destruct (Z.ltb_spec i len); simpl in H;
    destruct (Z.ltb_spec i 0); try lia; try (inversion H; lia); try discriminate.
  - destruct (Z.leb_spec 0 (len + i)); inversion H; lia.
  - destruct (Z.leb_spec 0 (len + i)); inversion H; lia.
Qed.

(* ====================================================================== *)
(* Part A.  The CommandStack refines (done, undone)                        *)
(* ====================================================================== *)

Lemma set_at_length {A} n (x : A) l : length (set_at n x l) = length l.
Proof.
  revert n; induction l as [|y ys IH]; intros n; simpl; [reflexivity|].
  destruct n; simpl; [reflexivity | rewrite IH; reflexivity].
Qed.

Lemma firstn_set_at {A} n (x : A) l : firstn n (set_at n x l) = firstn n l.
Proof.
  revert n; induction l as [|y ys IH]; intros n; simpl.
  - reflexivity.
  - destruct n; simpl; [reflexivity | rewrite IH; reflexivity].
Qed.

Lemma skipn_set_at {A} n (x : A) l :
  (n < length l)%nat -> skipn n (set_at n x l) = x :: skipn (S n) l.
Proof.
  revert n; induction l as [|y ys IH]; intros n H; simpl in *; [lia|].
  destruct n; simpl; [reflexivity|]. apply IH. lia.
Qed.

Lemma firstn_S_set_at {A} n (x : A) l :
  (n < length l)%nat -> firstn (S n) (set_at n x l) = firstn n l ++ [x].
Proof.
  revert n; induction l as [|y ys IH]; intros n H; simpl in *; [lia|].
  destruct n; simpl; [reflexivity|]. f_equal. apply IH. lia.
Qed.

Lemma skipn_S_set_at {A} n (x : A) l : skipn (S n) (set_at n x l) = skipn (S n) l.
Proof.
  revert n; induction l as [|y ys IH]; intros n; simpl; [reflexivity|].
  destruct n; simpl; [reflexivity|]. apply IH.
Qed.

Lemma firstn_S_nth {A} n (l : list A) d :
  (n < length l)%nat -> firstn (S n) l = firstn n l ++ [nth n l d].
Proof.
  revert n; induction l as [|y ys IH]; intros n H; simpl in *; [lia|].
  destruct n; simpl; [reflexivity|]. f_equal. apply IH. lia.
Qed.

Lemma skipn_nth {A} n (l : list A) d :
  (n < length l)%nat -> skipn n l = nth n l d :: skipn (S n) l.
Proof.
  revert n; induction l as [|y ys IH]; intros n H; simpl in *; [lia|].
  destruct n; simpl; [reflexivity|]. apply IH. lia.
Qed.

(* the abstract machine: model state, commands done (most recent first), commands undone (next first) *)
Definition astate := (state * list cmd * list cmd)%type.

Definition a_execute (m : mm) (a : astate) (c : cmd) : option exn * astate :=
  let '(s, d, u) := a in
  match can_execute m s c with
  | (Err e, _) => (Some e, a)
  | (Ok false, _) => (Some ValueErr, a)
  | (Ok true, c1) =>
    let '(o, c2) := execute m s c1 in
    match o with
    | (Some e, s') => (Some e, (s', d, u))
    | (None, s') => (None, (s', c2 :: d, []))
    end
  end.

Definition a_undo (m : mm) (a : astate) : option exn * astate :=
  let '(s, d, u) := a in
  match d with
  | [] => (Some IndexErr, a)
  | c :: d' =>
    match can_undo m s c with
    | Err e => (Some e, a)
    | Ok false => (None, a)
    | Ok true =>
      let '(o, c') := undo m s c in
      match o with
      | (Some e, s') => (Some e, (s', c' :: d', u))
      | (None, s') => (None, (s', d', c' :: u))
      end
    end
  end.

Definition a_redo (m : mm) (a : astate) : option exn * astate :=
  let '(s, d, u) := a in
  match u with
  | [] => (Some IndexErr, a)
  | c :: u' =>
    let '(o, c') := redo m s c in
    match o with
    | (Some e, s') => (Some e, (s', d, c' :: u'))
    | (None, s') => (None, (s', c' :: d, u'))
    end
  end.

Definition a_step (m : mm) (a : astate) (o : sop) : option exn * astate :=
  match o with
  | SExec c => a_execute m a c
  | SUndo => a_undo m a
  | SRedo => a_redo m a
  end.

Definition a_run (m : mm) (a : astate) (w : list sop) : astate :=
  fold_left (fun acc o => snd (a_step m acc o)) w a.

(* what a stack denotes *)
Definition wf_stack (k : cstack) : Prop := -1 <= sidx k < zlen (items k).
Definition ndone (k : cstack) : nat := Z.to_nat (sidx k + 1).
Definition done_of (k : cstack) : list cmd := rev (firstn (ndone k) (items k)).
Definition undone_of (k : cstack) : list cmd := skipn (ndone k) (items k).
Definition abs (ms : mstate) : astate := (fst ms, done_of (snd ms), undone_of (snd ms)).

Lemma wf_empty : wf_stack empty_stack.
Proof. unfold wf_stack, empty_stack, zlen; simpl. lia. Qed.

Lemma abs_empty s : abs (s, empty_stack) = (s, [], []).
Proof. reflexivity. Qed.

Lemma ndone_le k : wf_stack k -> (ndone k <= length (items k))%nat.
Proof. unfold wf_stack, ndone, zlen. lia. Qed.

(* --- execute --- *)
Lemma top_set_spec k c :
  wf_stack k ->
  wf_stack (top_set k c) /\ done_of (top_set k c) = c :: done_of k /\ undone_of (top_set k c) = [].
Proof.
  intros W. pose proof (ndone_le k W) as L.
  unfold top_set, done_of, undone_of, ndone, wf_stack in *; simpl.
  set (n := Z.to_nat (sidx k + 1)) in *.
  assert (Hl : length (firstn n (items k)) = n) by (apply firstn_length_le; exact L).
  assert (Hn : Z.to_nat (sidx k + 1 + 1) = S n) by (unfold n; lia).
  rewrite Hn. repeat split.
  - lia.
  - unfold zlen. rewrite app_length, Hl. simpl. unfold n. lia.
  - rewrite firstn_all2 by (rewrite app_length, Hl; simpl; lia). rewrite rev_app_distr. reflexivity.
  - apply skipn_all2. rewrite app_length, Hl. simpl. lia.
Qed.

Lemma st_execute_refines m s k c :
  wf_stack k ->
  let r := st_execute m (s, k) c in
  wf_stack (snd (snd r)) /\ (fst r, abs (snd r)) = a_execute m (abs (s, k)) c.
Proof.
  intros W. unfold st_execute, a_execute, abs. simpl fst; simpl snd.
  destruct (can_execute m s c) as [[[|]|e] c1]; simpl; try (split; [exact W | reflexivity]).
  destruct (execute m s c1) as [[[e|] s'] c2]; simpl; try (split; [exact W | reflexivity]).
  destruct (top_set_spec k c2 W) as (W' & D & U). split; [exact W'|]. rewrite D, U. reflexivity.
Qed.

(* --- undo --- *)
Lemma done_cons k :
  wf_stack k -> -1 < sidx k -> done_of k = item_at k (sidx k) :: rev (firstn (Z.to_nat (sidx k)) (items k)).
Proof.
  intros W H. unfold done_of, ndone, item_at.
  assert (E : Z.to_nat (sidx k + 1) = S (Z.to_nat (sidx k))) by lia. rewrite E.
  rewrite (firstn_S_nth _ _ dummy_cmd) by (unfold wf_stack, zlen in W; lia).
  rewrite rev_app_distr. reflexivity.
Qed.

Lemma done_nil k : wf_stack k -> ~ (-1 < sidx k) -> done_of k = [].
Proof.
  intros W H. unfold done_of, ndone. assert (sidx k = -1) by (unfold wf_stack in W; lia).
  replace (sidx k + 1) with 0 by lia. reflexivity.
Qed.

Lemma undo_put_spec k c' :
  wf_stack k -> -1 < sidx k ->
  let k1 := put_at k (sidx k) c' in
  wf_stack k1 /\ done_of k1 = c' :: rev (firstn (Z.to_nat (sidx k)) (items k)) /\ undone_of k1 = undone_of k /\
  wf_stack (top_del k1) /\ done_of (top_del k1) = rev (firstn (Z.to_nat (sidx k)) (items k)) /\
  undone_of (top_del k1) = c' :: undone_of k.
Proof.
  intros W H. unfold put_at, top_del, done_of, undone_of, ndone, wf_stack, zlen in *; simpl.
  set (n := Z.to_nat (sidx k)).
  assert (Hn : (n < length (items k))%nat) by (unfold n; lia).
  assert (E : Z.to_nat (sidx k + 1) = S n) by (unfold n; lia).
  assert (E2 : Z.to_nat (sidx k - 1 + 1) = n) by (unfold n; lia).
  rewrite E, E2, set_at_length.
  repeat split; try lia.
  - rewrite firstn_S_set_at by exact Hn. rewrite rev_app_distr. reflexivity.
  - apply skipn_S_set_at.
  - rewrite firstn_set_at. reflexivity.
  - apply skipn_set_at. exact Hn.
Qed.

Lemma st_undo_refines m s k :
  wf_stack k ->
  let r := st_undo m (s, k) in
  wf_stack (snd (snd r)) /\ (fst r, abs (snd r)) = a_undo m (abs (s, k)).
Proof.
  intros W. unfold st_undo, a_undo, abs. simpl fst; simpl snd.
  destruct (Z.ltb_spec (-1) (sidx k)) as [H|H]; simpl.
  - rewrite (done_cons k W H).
    destruct (can_undo m s (item_at k (sidx k))) as [[|]|e]; simpl;
      try (split; [exact W | try rewrite (done_cons k W H); reflexivity]).
    destruct (undo m s (item_at k (sidx k))) as [[[e|] s'] c']; simpl;
      destruct (undo_put_spec k c' W H) as (W1 & D1 & U1 & W2 & D2 & U2).
    + split; [exact W1|]. rewrite D1, U1. reflexivity.
    + split; [exact W2|]. rewrite D2, U2. reflexivity.
  - rewrite (done_nil k W) by lia. split; [exact W | try rewrite (done_nil k W) by lia; reflexivity].
Qed.

(* --- redo --- *)
Lemma undone_cons k :
  wf_stack k -> sidx k + 1 < zlen (items k) -> undone_of k = item_at k (sidx k + 1) :: skipn (S (ndone k)) (items k).
Proof.
  intros W H. unfold undone_of, item_at, ndone. apply skipn_nth. unfold wf_stack, zlen in *. lia.
Qed.

Lemma undone_nil k : wf_stack k -> ~ (sidx k + 1 < zlen (items k)) -> undone_of k = [].
Proof.
  intros W H. unfold undone_of, ndone. apply skipn_all2. unfold wf_stack, zlen in *. lia.
Qed.

Lemma redo_put_spec k c' :
  wf_stack k -> sidx k + 1 < zlen (items k) ->
  let k1 := put_at k (sidx k + 1) c' in
  wf_stack k1 /\ done_of k1 = done_of k /\ undone_of k1 = c' :: skipn (S (ndone k)) (items k) /\
  let k2 := {| items := items k1; sidx := sidx k + 1 |} in
  wf_stack k2 /\ done_of k2 = c' :: done_of k /\ undone_of k2 = skipn (S (ndone k)) (items k).
Proof.
  intros W H. unfold put_at, done_of, undone_of, ndone, wf_stack, zlen in *; simpl.
  set (n := Z.to_nat (sidx k + 1)).
  assert (Hn : (n < length (items k))%nat) by (unfold n; lia).
  assert (E : Z.to_nat (sidx k + 1 + 1) = S n) by (unfold n; lia).
  rewrite E, set_at_length.
  repeat split; try lia.
  - rewrite firstn_set_at. reflexivity.
  - apply skipn_set_at. exact Hn.
  - rewrite firstn_S_set_at by exact Hn. rewrite rev_app_distr. reflexivity.
  - apply skipn_S_set_at.
Qed.

Lemma st_redo_refines m s k :
  wf_stack k ->
  let r := st_redo m (s, k) in
  wf_stack (snd (snd r)) /\ (fst r, abs (snd r)) = a_redo m (abs (s, k)).
Proof.
  intros W. unfold st_redo, a_redo, abs. simpl fst; simpl snd.
  destruct (Z.ltb_spec (sidx k + 1) (zlen (items k))) as [H|H]; simpl.
  - rewrite (undone_cons k W H).
    destruct (redo m s (item_at k (sidx k + 1))) as [[[e|] s'] c']; simpl;
      destruct (redo_put_spec k c' W H) as (W1 & D1 & U1 & W2 & D2 & U2).
    + split; [exact W1|]. rewrite D1, U1. reflexivity.
    + unfold put_at in W2, D2, U2; simpl in W2, D2, U2.
      split; [exact W2|]. rewrite D2, U2. reflexivity.
  - rewrite (undone_nil k W) by lia. split; [exact W | try rewrite (undone_nil k W) by lia; reflexivity].
Qed.

Lemma st_step_refines m ms o :
  wf_stack (snd ms) ->
  wf_stack (snd (snd (st_step m ms o))) /\
  (fst (st_step m ms o), abs (snd (st_step m ms o))) = a_step m (abs ms) o.
Proof.
  destruct ms as [s k]. intros W. destruct o as [c| |]; simpl st_step; simpl a_step.
  - apply (st_execute_refines m s k c W).
  - apply (st_undo_refines m s k W).
  - apply (st_redo_refines m s k W).
Qed.

(* for every word: the stack stays well-formed and denotes what the (done, undone) machine computes *)
Theorem stack_refinement m ms w :
  wf_stack (snd ms) ->
  wf_stack (snd (st_run m ms w)) /\ abs (st_run m ms w) = a_run m (abs ms) w.
Proof.
  revert ms. induction w as [|o w IH]; intros ms W; simpl.
  - split; [exact W | reflexivity].
  - destruct (st_step_refines m ms o W) as (W' & E).
    unfold st_run, a_run in *. simpl.
    destruct (IH (snd (st_step m ms o)) W') as (W2 & E2). split; [exact W2|].
    rewrite E2. f_equal. assert (E3 := f_equal snd E). simpl in E3. exact E3.
Qed.

Corollary stack_refinement_from_empty m s w :
  wf_stack (snd (st_run m (s, empty_stack) w)) /\
  abs (st_run m (s, empty_stack) w) = a_run m (s, [], []) w.
Proof. apply (stack_refinement m (s, empty_stack) w wf_empty). Qed.

(* every outcome (returned / which exception) agrees as well *)
Lemma st_step_outcome m ms o :
  wf_stack (snd ms) -> fst (st_step m ms o) = fst (a_step m (abs ms) o).
Proof. intros W. destruct (st_step_refines m ms o W) as (_ & E). exact (f_equal fst E). Qed.

(* C06_truncate: a successful execute leaves nothing to redo, whatever had been undone before;
   the next redo raises IndexError and changes neither the model nor the stack *)
Theorem truncate_after_execute m s k c s' k' :
  wf_stack k ->
  st_execute m (s, k) c = (None, (s', k')) ->
  undone_of k' = [] /\ st_redo m (s', k') = (Some IndexErr, (s', k')).
Proof.
  intros W H. unfold st_execute in H.
  destruct (can_execute m s c) as [[[|]|e] c1]; try discriminate.
  destruct (execute m s c1) as [[[e|] s1] c2]; try discriminate.
  inversion H; subst s' k'. clear H.
  destruct (top_set_spec k c2 W) as (W' & D & U). split; [exact U|].
  unfold st_redo.
  assert (E : (sidx (top_set k c2) + 1 <? zlen (items (top_set k c2))) = false).
  { apply Z.ltb_ge. unfold top_set, zlen; simpl. rewrite app_length, firstn_length_le.
    - simpl. unfold wf_stack in W. lia.
    - pose proof (ndone_le k W). unfold ndone in *. lia. }
  rewrite E. reflexivity.
Qed.

(* ====================================================================== *)
(* Part B.  Per command kind: undo inverts execute, redo inverts undo      *)
(* ====================================================================== *)

(* what the property observes: every feature value with its order, the container, the resource
   membership (eResource is computed from cont and eres), the resource contents *)
Definition obs_eq (s t : state) : Prop :=
  (forall k, vals s k = vals t k) /\ (forall o, cont s o = cont t o) /\
  (forall o, eres s o = eres t o) /\ (forall r, rcont s r = rcont t r).

Lemma obs_eq_refl s : obs_eq s s.
Proof. repeat split. Qed.

Lemma obs_eq_sym s t : obs_eq s t -> obs_eq t s.
Proof. intros (A & B & C & D). repeat split; intros; symmetry; auto. Qed.

Lemma obs_eq_trans s t u : obs_eq s t -> obs_eq t u -> obs_eq s u.
Proof.
  intros (A & B & C & D) (A' & B' & C' & D').
  repeat split; intros; [rewrite A | rewrite B | rewrite C | rewrite D]; auto.
Qed.

(* equal observations give equal dumps (isset aside): the encoder of the correspondence reads nothing else *)
Definition obs4 (s : state) := (vals s, cont s, eres s, rcont s).

Lemma obs4_obs_eq s t : obs4 s = obs4 t -> obs_eq s t.
Proof. unfold obs4. intros H. inversion H as [[A B C D]]. repeat split; intros; congruence. Qed.

(* ---------- value equality ---------- *)
Lemma veqb_refl v : veqb v v = true.
Proof.
  destruct v as [|o|z|z|b|e l|h]; unfold veqb; simpl.
  - reflexivity.
  - apply Nat.eqb_refl.
  - apply Z.eqb_refl.
  - apply Z.eqb_refl.
  - destruct b; reflexivity.
  - rewrite !Nat.eqb_refl. reflexivity.
  - apply Z.eqb_refl.
Qed.

Lemma veqb_sym a b : veqb a b = veqb b a.
Proof.
  destruct a as [|o|z|z|b0|e l|h], b as [|o'|z'|z'|b'|e' l'|h']; unfold veqb; simpl;
    try reflexivity; try apply Z.eqb_sym; try apply Nat.eqb_sym.
  rewrite (Nat.eqb_sym e e'), (Nat.eqb_sym l l'). reflexivity.
Qed.

Lemma vmem_spec v l : vmem v l = true <-> exists y, In y l /\ veqb y v = true.
Proof.
  unfold vmem. induction l as [|z zs IH]; simpl.
  - split; [discriminate | intros (y & [] & _)].
  - rewrite orb_true_iff, IH. split.
    + intros [H|(y & Hy & E)]; [exists z; auto | exists y; auto].
    + intros (y & [Hy|Hy] & E); [subst; auto | right; exists y; auto].
Qed.

Lemma vmem_In v l : In v l -> vmem v l = true.
Proof. intros H. apply vmem_spec. exists v. split; [exact H | apply veqb_refl]. Qed.

Lemma vmem_false v l : vmem v l = false <-> forall y, In y l -> veqb y v = false.
Proof.
  split.
  - intros H y Hy. destruct (veqb y v) eqn:E; [|reflexivity].
    assert (vmem v l = true) by (apply vmem_spec; exists y; auto). congruence.
  - intros H. destruct (vmem v l) eqn:E; [|reflexivity].
    apply vmem_spec in E. destruct E as (y & Hy & E). rewrite (H y Hy) in E. discriminate.
Qed.

(* ---------- duplicate-free (for Python ==) ---------- *)
Fixpoint nodupv (l : list value) : bool :=
  match l with [] => true | v :: r => negb (vmem v r) && nodupv r end.

Lemma nodupv_remove_at n l : nodupv l = true -> nodupv (remove_at n l) = true.
Proof.
  revert n; induction l as [|y ys IH]; intros n H; simpl in *; [reflexivity|].
  apply andb_true_iff in H. destruct H as [H1 H2]. destruct n as [|n]; [exact H2|].
  simpl. apply andb_true_iff. split; [|apply IH; exact H2].
  apply negb_true_iff. apply negb_true_iff in H1. apply vmem_false. intros z Hz.
  apply (proj1 (vmem_false y ys) H1). eapply remove_at_In; exact Hz.
Qed.

Lemma nodupv_removed_notin n l w :
  nodupv l = true -> nth_error l n = Some w -> vmem w (remove_at n l) = false.
Proof.
  revert n; induction l as [|y ys IH]; intros n H N.
  - destruct n; discriminate.
  - simpl in H. apply andb_true_iff in H. destruct H as [H1 H2]. apply negb_true_iff in H1.
    destruct n as [|n]; simpl in *.
    + inversion N; subst. exact H1.
    + unfold vmem in *. simpl. apply orb_false_iff. split; [|apply (IH n H2 N)].
      rewrite veqb_sym. apply (proj1 (vmem_false y ys) H1). eapply nth_error_In; exact N.
Qed.

Lemma nodupv_insert_at n v l :
  nodupv l = true -> vmem v l = false -> nodupv (insert_at n v l) = true.
Proof.
  revert l; induction n as [|n IH]; intros l H Hv.
  - destruct l; simpl in *; rewrite ?Hv; simpl; auto.
  - destruct l as [|y ys]; simpl in *; [reflexivity|].
    apply andb_true_iff in H. destruct H as [H1 H2]. apply negb_true_iff in H1.
    unfold vmem in Hv. simpl in Hv. apply orb_false_iff in Hv. destruct Hv as [Hyv Hv].
    apply andb_true_iff. split; [|apply IH; assumption].
    apply negb_true_iff. apply vmem_false. intros z Hz. apply insert_at_In in Hz.
    destruct Hz as [Hz|Hz]; [subst z; rewrite veqb_sym; exact Hyv | apply (proj1 (vmem_false y ys) H1); exact Hz].
Qed.

(* ---------- well-typed, duplicate-free-where-unique slots (what C03 / C04 establish) ---------- *)
Definition cell_wt (m : mm) (f : fid) (l : list value) : Prop :=
  if f_many (fd m f)
  then (forall v, In v l -> check_elem m f v = true) /\ (f_unique (fd m f) = true -> nodupv l = true)
  else exists v, l = [v] /\ check_single m f v = true.

Definition wt (m : mm) (s : state) : Prop := forall x f, cell_wt m f (vals s (x, f)).

Lemma wt_obs_eq m s t : obs_eq s t -> wt m s -> wt m t.
Proof. intros (A & _) W x f. rewrite <- A. apply W. Qed.

(* ---------- the kernel procedures on the covered feature shapes ---------- *)
(* attribute, or reference without containment and without opposite *)
Definition plain (m : mm) (f : fid) : Prop :=
  f_isref (fd m f) = false \/ (f_cont (fd m f) = false /\ f_opp (fd m f) = None).

Lemma obs4_inv_add s o c : obs4 (inv_add s o c) = obs4 s.
Proof. unfold inv_add. destruct (cmem c (inv s o)); reflexivity. Qed.

Lemma obs4_inv_del s o c : obs4 (inv_del s o c) = obs4 s.
Proof. reflexivity. Qed.

Lemma set_full_plain_ok m s x f v :
  plain m f -> check_single m f v = true ->
  exists s', set_full m s (x, f) v = (None, s') /\
             obs4 s' = (upd (vals s) (x, f) [v], cont s, eres s, rcont s).
Proof.
  intros P C. unfold set_full. rewrite C. simpl negb.
  destruct P as [P|[P1 P2]].
  - rewrite P. simpl. eexists. split; reflexivity.
  - destruct (f_isref (fd m f)); simpl; [|eexists; split; reflexivity].
    unfold update_container. rewrite P1. simpl. rewrite P2.
    eexists. split; [reflexivity|].
    destruct (obj_of v); destruct (obj_of (single s (x, f)));
      rewrite ?obs4_inv_add, ?obs4_inv_del; reflexivity.
Qed.

Lemma set_full_bad m s k v :
  check_single m (snd k) v = false -> set_full m s k v = (Some BadValue, s).
Proof. destruct k as [x f]. simpl. intros C. unfold set_full. rewrite C. reflexivity. Qed.

Lemma coll_add_attr_ok m s x f pos v :
  f_isref (fd m f) = false -> check_elem m f v = true ->
  exists s', coll_add_full m s (x, f) pos v = (None, s') /\
             obs4 s' = (upd (vals s) (x, f)
                            (match pos with
                             | Some i => raw_insert (f_unique (fd m f)) i v (vals s (x, f))
                             | None => raw_append (f_unique (fd m f)) v (vals s (x, f))
                             end), cont s, eres s, rcont s).
Proof.
  intros R C. unfold coll_add_full, link_elem. rewrite C, R. simpl. eexists. split; reflexivity.
Qed.

Lemma coll_add_bad m s k pos v :
  check_elem m (snd k) v = false -> coll_add_full m s k pos v = (Some BadValue, s).
Proof. destruct k as [x f]. simpl. intros C. unfold coll_add_full. rewrite C. reflexivity. Qed.

Lemma coll_pop_attr_ok m s x f i w l' :
  f_isref (fd m f) = false -> py_pop i (vals s (x, f)) = Some (w, l') ->
  exists s', coll_pop_full m s (x, f) i = ((None, s'), Some w) /\
             obs4 s' = (upd (vals s) (x, f) l', cont s, eres s, rcont s).
Proof.
  intros R P. unfold coll_pop_full, unlink_elem.
  destruct (vals s (x, f)) as [|y ys] eqn:E.
  - rewrite py_pop_nil in P. discriminate.
  - rewrite P, R. eexists. split; reflexivity.
Qed.

Lemma coll_pop_raise m s k i e s' r :
  coll_pop_full m s k i = ((Some e, s'), r) -> s' = s.
Proof.
  destruct k as [x f]. unfold coll_pop_full.
  destruct (vals s (x, f)) as [|y ys]; [intros H; inversion H; reflexivity|].
  destruct (py_pop i (y :: ys)) as [[w l']|]; intros H; inversion H; reflexivity.
Qed.

(* ---------- undo inverts execute, redo inverts undo ---------- *)
(* c is the command as recorded after its execution from s0 to s1 *)
Definition inverts (m : mm) (c : cmd) (s0 s1 : state) : Prop :=
  (forall t, obs_eq t s1 ->
             can_undo m t c = Ok true /\
             exists t', undo m t c = ((None, t'), c) /\ obs_eq t' s0) /\
  (forall t, obs_eq t s0 -> exists t', redo m t c = ((None, t'), c) /\ obs_eq t' s1).

Lemma inverts_obs_eq m c s0 s1 s0' s1' :
  obs_eq s0 s0' -> obs_eq s1 s1' -> inverts m c s0 s1 -> inverts m c s0' s1'.
Proof.
  intros E0 E1 [U R]. split.
  - intros t Ht. destruct (U t (obs_eq_trans _ _ _ Ht (obs_eq_sym _ _ E1))) as (C & t' & Hu & Ho).
    split; [exact C|]. exists t'. split; [exact Hu | eapply obs_eq_trans; eauto].
  - intros t Ht. destruct (R t (obs_eq_trans _ _ _ Ht (obs_eq_sym _ _ E0))) as (t' & Hr & Ho).
    exists t'. split; [exact Hr | eapply obs_eq_trans; eauto].
Qed.

(* the shape every covered command has: one cell k gets the content l1, nothing else changes *)
Definition only_cell (s0 s1 : state) (k : cell) (l1 : list value) : Prop :=
  (forall k', vals s1 k' = upd (vals s0) k l1 k') /\ (forall o, cont s1 o = cont s0 o) /\
  (forall o, eres s1 o = eres s0 o) /\ (forall r, rcont s1 r = rcont s0 r).

Lemma obs4_only_cell s0 s1 k l1 :
  obs4 s1 = (upd (vals s0) k l1, cont s0, eres s0, rcont s0) -> only_cell s0 s1 k l1.
Proof.
  unfold obs4. intros H. inversion H as [[V C E R]]. repeat split; intros; congruence.
Qed.

Lemma only_cell_trans s0 s1 s2 k a b :
  only_cell s0 s1 k a -> only_cell s1 s2 k b -> only_cell s0 s2 k b.
Proof.
  intros (V1 & C1 & E1 & R1) (V2 & C2 & E2 & R2). repeat split; intros.
  - rewrite V2. unfold upd. destruct (cell_eqb k k') eqn:E; [reflexivity|].
    rewrite V1. unfold upd. rewrite E. reflexivity.
  - rewrite C2. apply C1.
  - rewrite E2. apply E1.
  - rewrite R2. apply R1.
Qed.

Lemma only_cell_back (s0 s1 t t' : state) k l1 :
  only_cell s0 s1 k l1 -> obs_eq t s1 -> only_cell t t' k (vals s0 k) -> obs_eq t' s0.
Proof.
  intros (V1 & C1 & E1 & R1) (A & B & C & D) (V2 & C2 & E2 & R2).
  repeat split; intros.
  - rewrite V2. unfold upd. destruct (cell_eqb k k0) eqn:E.
    + destruct (cell_eqb_spec k k0); [subst; reflexivity | discriminate].
    + rewrite A, V1. unfold upd. rewrite E. reflexivity.
  - rewrite C2, B, C1. reflexivity.
  - rewrite E2, C, E1. reflexivity.
  - rewrite R2, D, R1. reflexivity.
Qed.

Lemma only_cell_again (s0 s1 t t' : state) k l1 :
  only_cell s0 s1 k l1 -> obs_eq t s0 -> only_cell t t' k l1 -> obs_eq t' s1.
Proof.
  intros (V1 & C1 & E1 & R1) (A & B & C & D) (V2 & C2 & E2 & R2).
  repeat split; intros.
  - rewrite V2, V1. unfold upd. destruct (cell_eqb k k0); [reflexivity | apply A].
  - rewrite C2, C1. apply B.
  - rewrite E2, E1. apply C.
  - rewrite R2, R1. apply D.
Qed.

Lemma only_cell_vals s0 s1 k l1 : only_cell s0 s1 k l1 -> vals s1 k = l1.
Proof. intros (V & _). rewrite V. apply upd_same. Qed.

Lemma only_cell_wt m s0 s1 x f l1 :
  only_cell s0 s1 (x, f) l1 -> wt m s0 -> cell_wt m f l1 -> wt m s1.
Proof.
  intros (V & _) W C x' f'. rewrite V.
  unfold upd. destruct (cell_eqb (x, f) (x', f')) eqn:E.
  - destruct (cell_eqb_spec (x, f) (x', f')) as [E'|]; [|discriminate]. inversion E'; subst. exact C.
  - apply W.
Qed.

Lemma pair_eq_inv {A B} (a c : A) (b d : B) : (a, b) = (c, d) -> a = c /\ b = d.
Proof. intros H. inversion H. auto. Qed.

(* --- Set on an attribute or a plain reference --- *)
Lemma set_inverts m s x f v p s' c' :
  plain m f -> f_many (fd m f) = false -> cell_wt m f (vals s (x, f)) ->
  execute m s (CSet x f v p) = ((None, s'), c') ->
  inverts m c' s s' /\ only_cell s s' (x, f) [v] /\ cell_wt m f [v].
Proof.
  intros P M W H. cbn [execute] in H.
  remember (set_full m s (x, f) v) as r eqn:Er. injection H as H1 H2. rewrite Er in H1. clear Er r.
  unfold cell_wt in W. rewrite M in W. destruct W as (v0 & L0 & C0).
  assert (Sg : single s (x, f) = v0) by (unfold single; rewrite L0; reflexivity).
  destruct (check_single m f v) eqn:Cv.
  2:{ rewrite (set_full_bad m s (x, f) v Cv) in H1. discriminate. }
  destruct (set_full_plain_ok m s x f v P Cv) as (s1 & E1 & O1).
  rewrite E1 in H1. inversion H1; subst s1. clear H1.
  assert (OC : only_cell s s' (x, f) [v]) by (apply obs4_only_cell; exact O1).
  split; [|split; [exact OC | unfold cell_wt; rewrite M; exists v; auto]].
  subst c'. rewrite Sg. split.
  - intros t Ht. split; [reflexivity|]. cbn [undo].
    destruct (set_full_plain_ok m t x f v0 P C0) as (t' & Et & Ot).
    exists t'. rewrite Et. split; [reflexivity|].
    apply (only_cell_back s s' t t' (x, f) [v] OC Ht). apply obs4_only_cell. rewrite L0. exact Ot.
  - intros t Ht. cbn [redo].
    destruct (set_full_plain_ok m t x f v P Cv) as (t' & Et & Ot).
    exists t'. rewrite Et. split; [reflexivity|].
    apply (only_cell_again s s' t t' (x, f) [v] OC Ht). apply obs4_only_cell. exact Ot.
Qed.

(* --- Add on an attribute collection --- *)
Definition attr_many (m : mm) (f : fid) : Prop := f_many (fd m f) = true /\ f_isref (fd m f) = false.

Lemma raw_insert_absent u i v l :
  (u = true -> vmem v l = false) -> raw_insert u i v l = py_insert i v l.
Proof. intros H. unfold raw_insert. destruct u; simpl; [rewrite H; reflexivity | reflexivity]. Qed.

Lemma raw_append_absent u v l :
  (u = true -> vmem v l = false) -> raw_append u v l = l ++ [v].
Proof. intros H. unfold raw_append. destruct u; simpl; [rewrite H; reflexivity | reflexivity]. Qed.

Lemma py_insert_In {A} i (x y : A) l : In y (py_insert i x l) <-> y = x \/ In y l.
Proof. unfold py_insert. apply insert_at_In. Qed.

Lemma add_inverts m s x f v idx c1 s' c' :
  attr_many m f -> cell_wt m f (vals s (x, f)) ->
  can_execute m s (CAdd x f v idx) = (Ok true, c1) ->
  execute m s c1 = ((None, s'), c') ->
  exists i', c' = CAdd x f v (Some i') /\
             inverts m c' s s' /\ only_cell s s' (x, f) (py_insert i' v (vals s (x, f))) /\
             cell_wt m f (py_insert i' v (vals s (x, f))).
Proof.
  intros [M R] W HC HE. set (l := vals s (x, f)) in *.
  cbn [can_execute] in HC. destruct (negb (base_can m x f)); [discriminate|]. rewrite M in HC. cbn [negb] in HC.
  inversion HC as [[HB Hc1]]. subst c1. clear HC.
  apply andb_true_iff in HB. destruct HB as [_ HU]. apply negb_true_iff in HU.
  assert (Abs : f_unique (fd m f) = true -> vmem v l = false).
  { intros U. rewrite U in HU. simpl in HU. exact HU. }
  unfold cell_wt in W. rewrite M in W. destruct W as [Wc Wn].
  (* one description for both shapes of the index *)
  assert (EX : exists i', 0 <= i' <= zlen l /\ c' = CAdd x f v (Some i') /\
                          coll_add_full m s (x, f) (Some i') v = (None, s')).
  { cbn [execute] in HE. destruct idx as [i|]; apply pair_eq_inv in HE; destruct HE as [H1 H2].
    - exists (ins_pos (zlen l) i). split; [apply clamp_index_range, zlen_nonneg|]. split; [symmetry; exact H2|].
      exact H1.
    - exists (zlen l). split; [pose proof (zlen_nonneg l); lia|]. split; [symmetry; exact H2|].
      destruct (check_elem m f v) eqn:Cv.
      + destruct (coll_add_attr_ok m s x f None v R Cv) as (s1 & E1 & O1).
        destruct (coll_add_attr_ok m s x f (Some (zlen l)) v R Cv) as (s2 & E2 & O2).
        rewrite E1 in H1. inversion H1; subst s1. rewrite E2. f_equal.
        (* the two states have the same fields *)
        unfold coll_add_full in E1, E2. rewrite Cv in E1, E2. unfold link_elem in E1, E2. rewrite R in E1, E2.
        simpl in E1, E2. inversion E1. inversion E2. fold l.
        rewrite (raw_insert_absent _ _ _ _ Abs), (raw_append_absent _ _ _ Abs), py_insert_len. reflexivity.
      + rewrite (coll_add_bad m s (x, f) None v Cv) in H1. discriminate. }
  destruct EX as (i' & Ri & Ec & Ea). exists i'. split; [exact Ec|].
  destruct (check_elem m f v) eqn:Cv.
  2:{ rewrite (coll_add_bad m s (x, f) (Some i') v Cv) in Ea. discriminate. }
  destruct (coll_add_attr_ok m s x f (Some i') v R Cv) as (s1 & E1 & O1).
  rewrite E1 in Ea. inversion Ea; subst s1. clear Ea. fold l in O1.
  rewrite (raw_insert_absent _ _ _ _ Abs) in O1.
  assert (OC : only_cell s s' (x, f) (py_insert i' v l)) by (apply obs4_only_cell; exact O1).
  assert (CW : cell_wt m f (py_insert i' v l)).
  { unfold cell_wt. rewrite M. split.
    - intros y Hy. apply py_insert_In in Hy. destruct Hy as [Hy|Hy]; [subst; exact Cv | apply Wc; exact Hy].
    - intros U. unfold py_insert. apply nodupv_insert_at; [apply Wn; exact U | apply Abs; exact U]. }
  split; [|split; [exact OC | exact CW]].
  subst c'. split.
  - intros t Ht. pose proof Ht as (Vt & _). cbn [can_undo undo idx_or0].
    rewrite (Vt (x, f)), (only_cell_vals _ _ _ _ OC).
    split; [f_equal; apply vmem_In; apply py_insert_In; left; reflexivity|].
    assert (Pp : py_pop i' (vals t (x, f)) = Some (v, l)).
    { rewrite (Vt (x, f)), (only_cell_vals _ _ _ _ OC). apply py_pop_insert. exact Ri. }
    destruct (coll_pop_attr_ok m t x f i' v l R Pp) as (t' & Et & Ot).
    exists t'. rewrite Et. split; [reflexivity|].
    apply (only_cell_back s s' t t' (x, f) _ OC Ht). apply obs4_only_cell. exact Ot.
  - intros t Ht. pose proof Ht as (Vt & _). cbn [redo idx_or0].
    destruct (coll_add_attr_ok m t x f (Some i') v R Cv) as (t' & Et & Ot).
    exists t'. rewrite Et. split; [reflexivity|].
    apply (only_cell_again s s' t t' (x, f) _ OC Ht). apply obs4_only_cell.
    rewrite (Vt (x, f)) in Ot. fold l in Ot. rewrite (raw_insert_absent _ _ _ _ Abs) in Ot. exact Ot.
Qed.

(* --- Remove on an attribute collection --- *)
Lemma coll_pop_attr_inv m s x f i s1 w :
  f_isref (fd m f) = false -> coll_pop_full m s (x, f) i = ((None, s1), w) ->
  exists w' l2, py_pop i (vals s (x, f)) = Some (w', l2) /\ w = Some w'.
Proof.
  intros R H. unfold coll_pop_full in H.
  destruct (vals s (x, f)) as [|y ys] eqn:E; [inversion H|].
  destruct (py_pop i (y :: ys)) as [[w' l2]|]; [|inversion H].
  inversion H. exists w', l2. auto.
Qed.

Lemma remove_inverts m s x f v idx c1 s' c' :
  attr_many m f -> cell_wt m f (vals s (x, f)) ->
  can_execute m s (CRemove x f v idx) = (Ok true, c1) ->
  execute m s c1 = ((None, s'), c') ->
  exists i w l2, c' = CRemove x f w (Some i) /\
                 inverts m c' s s' /\ only_cell s s' (x, f) l2 /\ cell_wt m f l2.
Proof.
  intros [M R] W HC HE. set (l := vals s (x, f)) in *.
  unfold cell_wt in W. rewrite M in W. destruct W as [Wc Wn].
  cbn [can_execute] in HC. destruct (negb (base_can m x f)); [discriminate|]. rewrite M in HC. cbn [negb] in HC.
  (* both ways of naming the element lead to: pop at a position i >= 0 *)
  assert (EX : exists i v1, 0 <= i /\
            (let '(o, w) := coll_pop_full m s (x, f) i in
             (o, CRemove x f (match w with Some w' => w' | None => v1 end) (Some i))) = ((None, s'), c')).
  { destruct idx as [i0|].
    - fold l in HC. destruct (py_get i0 l) as [w0|] eqn:G; [|apply pair_eq_inv in HC; destruct HC; discriminate].
      apply pair_eq_inv in HC. destruct HC as [_ Hc1]. subst c1. cbn [execute] in HE. fold l in HE.
      destruct (py_get_norm i0 l w0 G) as (k & N & _).
      rewrite (norm_index_neg_shift _ _ _ N) in HE. exists k, w0. split; [|exact HE].
      apply norm_index_range in N. lia.
    - apply pair_eq_inv in HC. destruct HC as [_ Hc1]. subst c1. cbn [execute] in HE. fold l in HE.
      destruct (index_of veqb v l) as [n|]; [|apply pair_eq_inv in HE; destruct HE; discriminate].
      exists (Z.of_nat n), v. split; [lia | exact HE]. }
  destruct EX as (i & v1 & Hi & HE2). clear HE HC.
  destruct (coll_pop_full m s (x, f) i) as [[[e|] s1] w] eqn:EP;
    apply pair_eq_inv in HE2; destruct HE2 as [H1 H2]; [discriminate|].
  inversion H1; subst s1. clear H1.
  destruct (coll_pop_attr_inv m s x f i s' w R EP) as (w' & l2 & Pp & Ew). subst w. fold l in Pp.
  destruct (coll_pop_attr_ok m s x f i w' l2 R Pp) as (s2 & E2 & O2).
  rewrite EP in E2. inversion E2; subst s2. clear E2.
  assert (OC : only_cell s s' (x, f) l2) by (apply obs4_only_cell; exact O2).
  destruct (py_pop_nonneg i l w' l2 Hi Pp) as (Hlt & Nth & El2).
  assert (Cw : check_elem m f w' = true) by (apply Wc; eapply nth_error_In; exact Nth).
  assert (Abs : f_unique (fd m f) = true -> vmem w' l2 = false).
  { intros U. subst l2. apply nodupv_removed_notin; [apply Wn; exact U | exact Nth]. }
  assert (CW : cell_wt m f l2).
  { unfold cell_wt. rewrite M. split.
    - intros y Hy. apply Wc. subst l2. eapply remove_at_In; exact Hy.
    - intros U. subst l2. apply nodupv_remove_at. apply Wn; exact U. }
  exists i, w', l2. split; [symmetry; exact H2|]. split; [|split; [exact OC | exact CW]].
  subst c'. split.
  - intros t Ht. pose proof Ht as (Vt & _). split; [reflexivity|]. cbn [undo idx_or0].
    destruct (coll_add_attr_ok m t x f (Some i) w' R Cw) as (t' & Et & Ot).
    exists t'. rewrite Et. split; [reflexivity|].
    apply (only_cell_back s s' t t' (x, f) _ OC Ht). apply obs4_only_cell.
    rewrite (Vt (x, f)), (only_cell_vals _ _ _ _ OC) in Ot.
    rewrite (raw_insert_absent _ _ _ _ Abs), (py_insert_pop i l w' l2 Hi Pp) in Ot. exact Ot.
  - intros t Ht. pose proof Ht as (Vt & _). cbn [redo idx_or0].
    assert (Pt : py_pop i (vals t (x, f)) = Some (w', l2)) by (rewrite (Vt (x, f)); exact Pp).
    destruct (coll_pop_attr_ok m t x f i w' l2 R Pt) as (t' & Et & Ot).
    exists t'. rewrite Et. split; [reflexivity|].
    apply (only_cell_again s s' t t' (x, f) _ OC Ht). apply obs4_only_cell. exact Ot.
Qed.

(* --- Move inside an attribute collection --- *)
Lemma value_is_refl v : value_is v v = true.
Proof.
  destruct v as [|o|z|z|b|e l|h]; simpl; try reflexivity;
    try apply Z.eqb_refl; try apply Nat.eqb_refl.
  - destruct b; reflexivity.
  - rewrite !Nat.eqb_refl. reflexivity.
Qed.

Lemma py_get_insert {A} i (x : A) l : 0 <= i <= zlen l -> py_get i (py_insert i x l) = Some x.
Proof.
  intros H. pose proof (py_pop_insert i x l H) as P. unfold py_pop in P. unfold py_get.
  destruct (norm_index (zlen (py_insert i x l)) i) as [k|]; [|discriminate].
  destruct (nth_error (py_insert i x l) (Z.to_nat k)) as [y|]; [|discriminate].
  inversion P. reflexivity.
Qed.

Lemma nonneg_shift len i : 0 <= i -> (if i <? 0 then i + len else i) = i.
Proof. intros H. destruct (Z.ltb_spec i 0); [lia | reflexivity]. Qed.

Lemma move_inverts m s x f v from to c1 s' c' :
  attr_many m f -> cell_wt m f (vals s (x, f)) ->
  (is_none v = true \/ from = None) ->          (* Move(...) raises ValueError otherwise *)
  can_execute m s (CMove x f v from to) = (Ok true, c1) ->
  execute m s c1 = ((None, s'), c') ->
  exists fr w to' l2, c' = CMove x f w (Some fr) to' /\
                      inverts m c' s s' /\ only_cell s s' (x, f) l2 /\ cell_wt m f l2.
Proof.
  intros [M R] W Hx HC HE. set (l := vals s (x, f)) in *.
  unfold cell_wt in W. rewrite M in W. destruct W as [Wc Wn].
  cbn [can_execute] in HC. destruct (negb (base_can m x f)); [discriminate|]. rewrite M in HC. cbn [negb] in HC.
  fold l in HC.
  assert (EX : exists fr0 v1, c1 = CMove x f v1 (Some fr0) to /\
                              0 <= (if fr0 <? 0 then fr0 + zlen l else fr0)).
  { destruct (is_none v) eqn:Nv.
    - destruct from as [i0|]; [|apply pair_eq_inv in HC; destruct HC; discriminate].
      destruct (py_get i0 l) as [w0|] eqn:G; [|apply pair_eq_inv in HC; destruct HC; discriminate].
      apply pair_eq_inv in HC. destruct HC as [_ Hc]. exists i0, w0. split; [symmetry; exact Hc|].
      destruct (py_get_norm i0 l w0 G) as (k & N & _). rewrite (norm_index_neg_shift _ _ _ N).
      apply norm_index_range in N. lia.
    - destruct Hx as [Hx|Hx]; [discriminate|]. subst from.
      destruct (index_of veqb v l) as [n|]; [|apply pair_eq_inv in HC; destruct HC; discriminate].
      apply pair_eq_inv in HC. destruct HC as [_ Hc]. exists (Z.of_nat n), v. split; [symmetry; exact Hc|].
      rewrite nonneg_shift; lia. }
  destruct EX as (fr0 & v1 & Hc1 & Hfr). subst c1. clear HC.
  cbn [execute] in HE. unfold do_move in HE. fold l in HE.
  set (fr := if fr0 <? 0 then fr0 + zlen l else fr0) in *.
  destruct (coll_pop_full m s (x, f) fr) as [[[e|] s1] w] eqn:EP;
    [apply pair_eq_inv in HE; destruct HE; discriminate|].
  destruct (coll_pop_attr_inv m s x f fr s1 w R EP) as (w' & l1 & Pp & Ew). subst w. fold l in Pp.
  destruct (coll_pop_attr_ok m s x f fr w' l1 R Pp) as (s1' & E1 & O1).
  rewrite EP in E1. inversion E1; subst s1'. clear E1.
  assert (OC1 : only_cell s s1 (x, f) l1) by (apply obs4_only_cell; exact O1).
  pose proof (only_cell_vals _ _ _ _ OC1) as V1.
  apply pair_eq_inv in HE. destruct HE as [H1 H2]. rewrite V1 in H1, H2.
  set (to' := ins_pos (zlen l1) to) in *.
  assert (Rto : 0 <= to' <= zlen l1) by (apply clamp_index_range, zlen_nonneg).
  destruct (py_pop_nonneg fr l w' l1 Hfr Pp) as (Hlt & Nth & El1).
  assert (Cw : check_elem m f w' = true) by (apply Wc; eapply nth_error_In; exact Nth).
  assert (Abs : f_unique (fd m f) = true -> vmem w' l1 = false).
  { intros U. rewrite El1. apply nodupv_removed_notin; [apply Wn; exact U | exact Nth]. }
  destruct (coll_add_attr_ok m s1 x f (Some to') w' R Cw) as (s2 & E2 & O2).
  rewrite E2 in H1. inversion H1; subst s2. clear H1.
  rewrite V1, (raw_insert_absent _ _ _ _ Abs) in O2.
  set (l2 := py_insert to' w' l1) in *.
  assert (OC : only_cell s s' (x, f) l2).
  { eapply only_cell_trans; [exact OC1 | apply obs4_only_cell; exact O2]. }
  assert (CW : cell_wt m f l2).
  { unfold cell_wt. rewrite M. split.
    - intros y Hy. apply py_insert_In in Hy. destruct Hy as [Hy|Hy]; [subst; exact Cw|].
      apply Wc. rewrite El1 in Hy. eapply remove_at_In; exact Hy.
    - intros U. unfold l2, py_insert. apply nodupv_insert_at; [|apply Abs; exact U].
      rewrite El1. apply nodupv_remove_at. apply Wn; exact U. }
  exists fr, w', to', l2. split; [symmetry; exact H2|]. split; [|split; [exact OC | exact CW]].
  subst c'. split.
  - intros t Ht. pose proof Ht as (Vt & _). cbn [can_undo undo idx_or0].
    rewrite (Vt (x, f)), (only_cell_vals _ _ _ _ OC). unfold l2 at 1.
    rewrite (py_get_insert to' w' l1 Rto), value_is_refl. split; [reflexivity|].
    assert (Pt : py_pop to' (vals t (x, f)) = Some (w', l1)).
    { rewrite (Vt (x, f)), (only_cell_vals _ _ _ _ OC). apply py_pop_insert. exact Rto. }
    destruct (coll_pop_attr_ok m t x f to' w' l1 R Pt) as (t1 & Et1 & Ot1).
    rewrite Et1.
    assert (OCt1 : only_cell t t1 (x, f) l1) by (apply obs4_only_cell; exact Ot1).
    destruct (coll_add_attr_ok m t1 x f (Some fr) w' R Cw) as (t' & Et & Ot).
    exists t'. rewrite Et. split; [reflexivity|].
    apply (only_cell_back s s' t t' (x, f) _ OC Ht).
    eapply only_cell_trans; [exact OCt1|]. apply obs4_only_cell.
    rewrite (only_cell_vals _ _ _ _ OCt1), (raw_insert_absent _ _ _ _ Abs), (py_insert_pop fr l w' l1 Hfr Pp) in Ot.
    exact Ot.
  - intros t Ht. pose proof Ht as (Vt & _). cbn [redo]. unfold do_move.
    rewrite (Vt (x, f)). fold l. rewrite (nonneg_shift (zlen l) fr Hfr).
    assert (Pt : py_pop fr (vals t (x, f)) = Some (w', l1)) by (rewrite (Vt (x, f)); exact Pp).
    destruct (coll_pop_attr_ok m t x f fr w' l1 R Pt) as (t1 & Et1 & Ot1).
    rewrite Et1.
    assert (OCt1 : only_cell t t1 (x, f) l1) by (apply obs4_only_cell; exact Ot1).
    rewrite (only_cell_vals _ _ _ _ OCt1).
    assert (Eto : ins_pos (zlen l1) to' = to') by (apply clamp_index_id; exact Rto).
    rewrite Eto.
    destruct (coll_add_attr_ok m t1 x f (Some to') w' R Cw) as (t' & Et & Ot).
    exists t'. rewrite Et. split; [reflexivity|].
    apply (only_cell_again s s' t t' (x, f) _ OC Ht).
    eapply only_cell_trans; [exact OCt1|]. apply obs4_only_cell.
    rewrite (only_cell_vals _ _ _ _ OCt1), (raw_insert_absent _ _ _ _ Abs) in Ot. exact Ot.
Qed.

(* ====================================================================== *)
(* Part C.  Words over the covered command kinds; k undos then k redos     *)
(* ====================================================================== *)

(* the command kinds and feature shapes covered by Part B *)
Definition covered (m : mm) (c : cmd) : Prop :=
  match c with
  | CSet x f _ _ => plain m f /\ f_many (fd m f) = false
  | CAdd x f _ _ => attr_many m f
  | CRemove x f _ _ => attr_many m f
  | CMove x f v from _ => attr_many m f /\ (is_none v = true \/ from = None)
  | _ => False
  end.

Lemma covered_exec m s c c1 s' c2 :
  wt m s -> covered m c ->
  can_execute m s c = (Ok true, c1) -> execute m s c1 = ((None, s'), c2) ->
  inverts m c2 s s' /\ wt m s'.
Proof.
  intros W Cv HC HE. destruct c as [x f v p|x f v idx|x f v idx|x f v from to| |]; simpl in Cv; try contradiction.
  - destruct Cv as [P M]. cbn [can_execute] in HC. apply pair_eq_inv in HC. destruct HC as [_ Hc]. subst c1.
    destruct (set_inverts m s x f v p s' c2 P M (W x f) HE) as (I & OC & CW).
    split; [exact I | eapply only_cell_wt; eauto].
  - destruct (add_inverts m s x f v idx c1 s' c2 Cv (W x f) HC HE) as (i' & _ & I & OC & CW).
    split; [exact I | eapply only_cell_wt; eauto].
  - destruct (remove_inverts m s x f v idx c1 s' c2 Cv (W x f) HC HE) as (i & w & l2 & _ & I & OC & CW).
    split; [exact I | eapply only_cell_wt; eauto].
  - destruct Cv as [A Hx].
    destruct (move_inverts m s x f v from to c1 s' c2 A (W x f) Hx HC HE) as (fr & w & to' & l2 & _ & I & OC & CW).
    split; [exact I | eapply only_cell_wt; eauto].
Qed.

(* a covered command that raises leaves the model as it was *)
Lemma covered_exec_raise m s c c1 e s' c2 :
  wt m s -> covered m c ->
  can_execute m s c = (Ok true, c1) -> execute m s c1 = ((Some e, s'), c2) -> s' = s.
Proof.
  intros W Cv HC HE. destruct c as [x f v p|x f v idx|x f v idx|x f v from to| |]; simpl in Cv; try contradiction.
  - destruct Cv as [P M]. cbn [can_execute] in HC. apply pair_eq_inv in HC. destruct HC as [_ Hc]. subst c1.
    cbn [execute] in HE. apply pair_eq_inv in HE. destruct HE as [H1 _].
    destruct (check_single m f v) eqn:C.
    + destruct (set_full_plain_ok m s x f v P C) as (s1 & E1 & _). rewrite E1 in H1. discriminate.
    + rewrite (set_full_bad m s (x, f) v C) in H1. inversion H1. reflexivity.
  - destruct Cv as [M R]. cbn [can_execute] in HC.
    destruct (negb (base_can m x f)); [discriminate|]. rewrite M in HC. cbn [negb] in HC.
    apply pair_eq_inv in HC. destruct HC as [_ Hc]. subst c1. cbn [execute] in HE.
    destruct idx as [i|]; apply pair_eq_inv in HE; destruct HE as [H1 _];
      (destruct (check_elem m f v) eqn:C;
       [ match type of H1 with coll_add_full _ _ _ ?pos _ = _ =>
           destruct (coll_add_attr_ok m s x f pos v R C) as (s1 & E1 & _) end;
         rewrite E1 in H1; discriminate
       | rewrite (coll_add_bad m s (x, f) _ v C) in H1; inversion H1; reflexivity ]).
  - destruct Cv as [M R]. cbn [can_execute] in HC.
    destruct (negb (base_can m x f)); [discriminate|]. rewrite M in HC. cbn [negb] in HC.
    assert (EX : exists v1 idx1, c1 = CRemove x f v1 idx1).
    { destruct idx as [i0|].
      - destruct (py_get i0 (vals s (x, f))); apply pair_eq_inv in HC; destruct HC as [_ Hc]; subst c1; eauto.
      - apply pair_eq_inv in HC; destruct HC as [_ Hc]; subst c1; eauto. }
    destruct EX as (v1 & idx1 & Hc). subst c1. cbn [execute] in HE.
    match type of HE with (match ?ri with _ => _ end) = _ => destruct ri as [i|e0] end.
    + destruct (coll_pop_full m s (x, f) i) as [[[e1|] s1] w] eqn:EP;
        apply pair_eq_inv in HE; destruct HE as [H1 _]; [|discriminate].
      inversion H1; subst. eapply coll_pop_raise; exact EP.
    + apply pair_eq_inv in HE. destruct HE as [H1 _]. inversion H1. reflexivity.
  - destruct Cv as [[M R] Hx]. pose proof (W x f) as Wc. unfold cell_wt in Wc. rewrite M in Wc. destruct Wc as [Wc _].
    cbn [can_execute] in HC.
    destruct (negb (base_can m x f)); [discriminate|]. rewrite M in HC. cbn [negb] in HC.
    assert (EX : exists v1 fr0, c1 = CMove x f v1 fr0 to).
    { destruct (is_none v).
      - destruct from as [i0|]; [|apply pair_eq_inv in HC; destruct HC; discriminate].
        destruct (py_get i0 (vals s (x, f))); apply pair_eq_inv in HC; destruct HC as [_ Hc]; subst c1; eauto.
      - destruct from as [i0|].
        + apply pair_eq_inv in HC; destruct HC as [_ Hc]; subst c1; eauto.
        + destruct (index_of veqb v (vals s (x, f))); apply pair_eq_inv in HC; destruct HC as [_ Hc]; subst c1; eauto. }
    destruct EX as (v1 & fr0 & Hc). subst c1. cbn [execute] in HE. unfold do_move in HE.
    match type of HE with (match coll_pop_full m s (x, f) ?z with _ => _ end) = _ => set (fr := z) in * end.
    destruct (coll_pop_full m s (x, f) fr) as [[[e1|] s1] w] eqn:EP.
    + apply pair_eq_inv in HE. destruct HE as [H1 _]. inversion H1; subst. eapply coll_pop_raise; exact EP.
    + exfalso. destruct (coll_pop_attr_inv m s x f fr s1 w R EP) as (w' & l1 & Pp & Ew). subst w.
      apply pair_eq_inv in HE. destruct HE as [H1 _].
      assert (In w' (vals s (x, f))).
      { unfold py_pop in Pp. destruct (norm_index (zlen (vals s (x, f))) fr) as [k|]; [|discriminate].
        destruct (nth_error (vals s (x, f)) (Z.to_nat k)) as [y|] eqn:N; [|discriminate].
        inversion Pp; subst. eapply nth_error_In; exact N. }
      match type of H1 with coll_add_full _ _ _ ?pos _ = _ =>
        destruct (coll_add_attr_ok m s1 x f pos w' R (Wc w' H)) as (s2 & E2 & _) end.
      rewrite E2 in H1. discriminate.
Qed.

(* the history the (done, undone) machine has built: every done command inverts between the states
   before and after it, every undone command between the current state and the one its redo gives *)
Inductive chain (m : mm) : list cmd -> state -> Prop :=
| chain_nil s : chain m [] s
| chain_cons c d s0 s : wt m s0 -> chain m d s0 -> inverts m c s0 s -> chain m (c :: d) s.

Inductive future (m : mm) : state -> list cmd -> Prop :=
| future_nil s : future m s []
| future_cons c u s s1 : wt m s1 -> inverts m c s s1 -> future m s1 u -> future m s (c :: u).

Lemma chain_obs_eq m d s s' : obs_eq s s' -> chain m d s -> chain m d s'.
Proof.
  intros E H. inversion H; subst; [constructor|].
  econstructor; eauto. eapply inverts_obs_eq; [apply obs_eq_refl | exact E | eassumption].
Qed.

Lemma future_obs_eq m u s s' : obs_eq s s' -> future m s u -> future m s' u.
Proof.
  intros E H. inversion H; subst; [constructor|].
  econstructor; eauto. eapply inverts_obs_eq; [exact E | apply obs_eq_refl | eassumption].
Qed.

Definition ainv (m : mm) (a : astate) : Prop :=
  let '(s, d, u) := a in wt m s /\ chain m d s /\ future m s u.

Definition op_ok (m : mm) (o : sop) : Prop := match o with SExec c => covered m c | _ => True end.

Lemma a_undo_inv m s c d u :
  ainv m (s, c :: d, u) ->
  exists t, a_undo m (s, c :: d, u) = (None, (t, d, c :: u)) /\ ainv m (t, d, c :: u) /\
            exists s0, obs_eq t s0 /\ inverts m c s0 s.
Proof.
  intros (W & Ch & Fu). inversion Ch as [|c0 d0 s0 s1 W0 Ch0 I]; subst.
  destruct I as [U R]. destruct (U s (obs_eq_refl s)) as (Cu & t & Eu & Ot).
  exists t. unfold a_undo. rewrite Cu, Eu. split; [reflexivity|].
  assert (Os : obs_eq s0 t) by (apply obs_eq_sym; exact Ot).
  split; [|exists s0; split; [exact Ot | split; assumption]].
  split; [eapply wt_obs_eq; eauto|]. split; [eapply chain_obs_eq; eauto|].
  econstructor; [exact W | | exact Fu].
  eapply inverts_obs_eq; [exact Os | apply obs_eq_refl | split; assumption].
Qed.

Lemma a_redo_inv m s c d u :
  ainv m (s, d, c :: u) ->
  exists t, a_redo m (s, d, c :: u) = (None, (t, c :: d, u)) /\ ainv m (t, c :: d, u).
Proof.
  intros (W & Ch & Fu). inversion Fu as [|c0 u0 s0 s1 W1 I Fu1]; subst.
  pose proof I as [U R]. destruct (R s (obs_eq_refl s)) as (t & Er & Ot).
  exists t. unfold a_redo. rewrite Er. split; [reflexivity|].
  assert (Os : obs_eq s1 t) by (apply obs_eq_sym; exact Ot).
  split; [eapply wt_obs_eq; eauto|]. split; [|eapply future_obs_eq; eauto].
  econstructor; [exact W | exact Ch |].
  eapply inverts_obs_eq; [apply obs_eq_refl | exact Os | exact I].
Qed.

Lemma a_step_inv m a o : ainv m a -> op_ok m o -> ainv m (snd (a_step m a o)).
Proof.
  destruct a as [[s d] u]. intros Inv Ok. destruct o as [c| |]; unfold a_step.
  - simpl in Ok. destruct Inv as (W & Ch & Fu). unfold a_execute.
    destruct (can_execute m s c) as [[[|]|e] c1] eqn:HC; simpl; try (split; [|split]; assumption).
    destruct (execute m s c1) as [[[e|] s'] c2] eqn:HE; simpl.
    + rewrite (covered_exec_raise m s c c1 e s' c2 W Ok HC HE). split; [|split]; assumption.
    + destruct (covered_exec m s c c1 s' c2 W Ok HC HE) as (I & W').
      split; [exact W'|]. split; [exact (chain_cons m c2 d s s' W Ch I) | constructor].
  - destruct d as [|c d].
    + simpl. exact Inv.
    + destruct (a_undo_inv m s c d u Inv) as (t & E & I & _). rewrite E. exact I.
  - destruct u as [|c u].
    + simpl. exact Inv.
    + destruct (a_redo_inv m s c d u Inv) as (t & E & I). rewrite E. exact I.
Qed.

Lemma a_run_inv m a w : ainv m a -> Forall (op_ok m) w -> ainv m (a_run m a w).
Proof.
  revert a. induction w as [|o w IH]; intros a Inv Ok; [exact Inv|].
  inversion Ok; subst. unfold a_run in *. simpl. apply IH; [|assumption]. apply a_step_inv; assumption.
Qed.

Lemma a_run_app m a w1 w2 : a_run m a (w1 ++ w2) = a_run m (a_run m a w1) w2.
Proof. unfold a_run. apply fold_left_app. Qed.

Lemma repeat_snoc {A} (x : A) n : repeat x (S n) = repeat x n ++ [x].
Proof. induction n as [|n IH]; [reflexivity|]. simpl in *. rewrite <- IH. reflexivity. Qed.

(* k undos followed by k redos: same (done, undone), same observable model *)
Theorem k_undo_k_redo_abs m k : forall s d u,
  ainv m (s, d, u) -> (k <= length d)%nat ->
  exists s', a_run m (s, d, u) (repeat SUndo k ++ repeat SRedo k) = (s', d, u) /\ obs_eq s' s /\ ainv m (s', d, u).
Proof.
  induction k as [|k IH]; intros s d u Inv L.
  - exists s. simpl. split; [reflexivity|]. split; [apply obs_eq_refl | exact Inv].
  - destruct d as [|c d]; [simpl in L; lia|].
    destruct (a_undo_inv m s c d u Inv) as (t & Eu & It & s0 & Ots0 & I).
    destruct (IH t d (c :: u) It ltac:(simpl in L; lia)) as (t2 & Er & Ot2 & It2).
    destruct (a_redo_inv m t2 c d u It2) as (t3 & E3 & It3).
    exists t3.
    change (repeat SUndo (S k)) with (SUndo :: repeat SUndo k). rewrite (repeat_snoc SRedo k).
    rewrite app_assoc. rewrite a_run_app.
    assert (E1 : a_run m (s, c :: d, u) ((SUndo :: repeat SUndo k) ++ repeat SRedo k) = (t2, d, c :: u)).
    { unfold a_run in *. cbn [app fold_left a_step]. rewrite Eu. cbn [snd]. exact Er. }
    rewrite E1. unfold a_run. cbn [fold_left a_step]. rewrite E3. cbn [snd]. split; [reflexivity|]. split; [|exact It3].
    (* t3 is what redo c gives from t2 ~ s0; s is what it gives from s0 *)
    destruct I as [_ R]. assert (O20 : obs_eq t2 s0) by (eapply obs_eq_trans; eauto).
    destruct (R t2 O20) as (t3' & Er3 & Ot3).
    unfold a_redo in E3. rewrite Er3 in E3. inversion E3; subst. exact Ot3.
Qed.

(* ---------- transfer to the CommandStack ---------- *)
Lemma st_run_app m ms w1 w2 : st_run m ms (w1 ++ w2) = st_run m (st_run m ms w1) w2.
Proof. unfold st_run. apply fold_left_app. Qed.

Lemma stack_ext k k' :
  wf_stack k -> wf_stack k' -> done_of k = done_of k' -> undone_of k = undone_of k' -> k = k'.
Proof.
  intros W W' D U. destruct k as [it ix], k' as [it' ix'].
  unfold done_of, undone_of, ndone, wf_stack in *; simpl in *.
  assert (L : length (firstn (Z.to_nat (ix + 1)) it) = length (firstn (Z.to_nat (ix' + 1)) it')).
  { apply (f_equal (@length cmd)) in D. rewrite !rev_length in D. exact D. }
  rewrite !firstn_length_le in L by (unfold zlen in *; lia).
  assert (ix = ix') by lia. subst ix'.
  f_equal. rewrite <- (firstn_skipn (Z.to_nat (ix + 1)) it), <- (firstn_skipn (Z.to_nat (ix + 1)) it').
  apply (f_equal (@rev cmd)) in D. rewrite !rev_involutive in D. rewrite D, U. reflexivity.
Qed.

Theorem invariant_of_words m s0 w :
  wt m s0 -> Forall (op_ok m) w -> ainv m (abs (st_run m (s0, empty_stack) w)).
Proof.
  intros W Ok. destruct (stack_refinement_from_empty m s0 w) as (_ & E). rewrite E.
  apply a_run_inv; [|exact Ok]. split; [exact W|]. split; constructor.
Qed.

Theorem k_undo_k_redo m s0 w k :
  wt m s0 -> Forall (op_ok m) w ->
  let ms := st_run m (s0, empty_stack) w in
  (k <= length (done_of (snd ms)))%nat ->
  let ms' := st_run m ms (repeat SUndo k ++ repeat SRedo k) in
  obs_eq (fst ms') (fst ms) /\ snd ms' = snd ms.
Proof.
  intros W Ok ms L ms'.
  destruct (stack_refinement_from_empty m s0 w) as (Wf & E). fold ms in Wf, E.
  pose proof (invariant_of_words m s0 w W Ok) as Inv. fold ms in Inv.
  destruct (stack_refinement m ms (repeat SUndo k ++ repeat SRedo k) Wf) as (Wf' & E'). fold ms' in Wf', E'.
  unfold abs in Inv at 1. 
  destruct (k_undo_k_redo_abs m k (fst ms) (done_of (snd ms)) (undone_of (snd ms)) Inv L) as (s' & Er & Os & _).
  unfold abs in E' at 2. rewrite Er in E'. unfold abs in E'. inversion E' as [[Es Ed Eu]].
  split; [rewrite Es; exact Os|]. apply stack_ext; assumption.
Qed.

(* ====================================================================== *)
(* A concrete metamodel for the non-vacuity examples of Props/C06.v        *)
(* ====================================================================== *)
(* class 0 with: f0 = n : EInt (default 0), f1 = ns : EInt[*] unique, f2 = nl : EInt[*] non-unique,
   f3 = abnn : C0[*] <-> f4 = bann : C0[*] (many-to-many opposites); three objects *)
Definition ex_mm : mm :=
  {| feats := [ {| f_owner := 0%nat; f_isref := false; f_many := false; f_unique := true; f_cont := false;
                   f_opp := None; f_type := TInt; f_default := VInt 0 |};
                {| f_owner := 0%nat; f_isref := false; f_many := true; f_unique := true; f_cont := false;
                   f_opp := None; f_type := TInt; f_default := VNone |};
                {| f_owner := 0%nat; f_isref := false; f_many := true; f_unique := false; f_cont := false;
                   f_opp := None; f_type := TInt; f_default := VNone |};
                {| f_owner := 0%nat; f_isref := true; f_many := true; f_unique := true; f_cont := false;
                   f_opp := Some 4%nat; f_type := TClass 0%nat; f_default := VNone |};
                {| f_owner := 0%nat; f_isref := true; f_many := true; f_unique := true; f_cont := false;
                   f_opp := Some 3%nat; f_type := TClass 0%nat; f_default := VNone |} ];
     conf := [(0%nat, 0%nat)]; ocls := [0%nat; 0%nat; 0%nat]; enames := []; nres := 0%nat |}.

Lemma ex_wt : wt ex_mm (init_state ex_mm).
Proof.
  intros x f. unfold cell_wt, init_state; simpl vals.
  do 5 (destruct f as [|f]; [simpl; try (split; [intros v []| reflexivity]); try (eexists; split; reflexivity)|]).
  assert (E : fd ex_mm (S (S (S (S (S f))))) = dummy_f) by (unfold fd; simpl; destruct f; reflexivity).
  rewrite E. simpl. eexists; split; reflexivity.
Qed.
