(* Slice access to a many-valued feature: c[a:b], c[a:b] = ys, del c[a:b] with step 1 and
   optional bounds, any a b in Z.

   List-based collections (EList, EBag; valuecontainer.py EList.__setitem__ ends in
   list.__setitem__, deletion and reading are the inherited list methods): CPython's
   PySlice_AdjustIndices (Objects/sliceobject.c) followed by list_ass_slice / list_slice
   (Objects/listobject.c): both bounds are normalised and clamped into [0, len], an empty
   range starts at the lower bound, and the range is replaced by the new elements.

   OrderedSet-based collections (ordered_set_patch.py __setitem__ / __delitem__): slice
   assignment is refused (KeyError), slice deletion is refused except `del c[:]`, which is
   clear(); reading goes through the item list.

   The element-level operations of Model/Coll.v are embedded unchanged (SOp), so that one
   history may mix both.  No proofs here (Proofs/SliceProofs.v). *)
From Coq Require Import ZArith List Bool.
From PyecoreV Require Import Lib.PyBase Lib.PyList Model.OSet Model.Coll.
Import ListNotations.
Open Scope Z_scope.

(* PySlice_AdjustIndices for step = 1, one bound *)
Definition adjust (len : Z) (dflt : Z) (i : option Z) : Z :=
  match i with
  | None => dflt
  | Some i => if i <? 0 then Z.max 0 (len + i) else Z.min i len
  end.

(* (lo, hi) with 0 <= lo <= hi <= len : the positions lo .. hi-1 are the slice *)
Definition slice_bounds (len : Z) (a b : option Z) : Z * Z :=
  let lo := adjust len 0 a in
  let hi := adjust len len b in
  (lo, Z.max lo hi).

Definition py_getslice {A} (a b : option Z) (l : list A) : list A :=
  let '(lo, hi) := slice_bounds (zlen l) a b in
  firstn (Z.to_nat (hi - lo)) (skipn (Z.to_nat lo) l).

Definition py_setslice {A} (a b : option Z) (ys l : list A) : list A :=
  let '(lo, hi) := slice_bounds (zlen l) a b in
  firstn (Z.to_nat lo) l ++ ys ++ skipn (Z.to_nat hi) l.

Definition py_delslice {A} (a b : option Z) (l : list A) : list A :=
  py_setslice a b [] l.

Inductive sop : Type :=
| SOp (o : cop)                             (* the element-level operations *)
| SSetSlice (a b : option Z) (ys : list Z)  (* c[a:b] = ys *)
| SDelSlice (a b : option Z)                (* del c[a:b] *)
| SGetSlice (a b : option Z).               (* c[a:b], observed through the returned elements *)

(* state, optional scalar result, returned elements of a read *)
Definition sres (S : Type) := res (S * option Z * list Z).

Definition lift {S} (r : cres S) : sres S :=
  match r with Ok (s, v) => Ok (s, v, []) | Err e => Err e end.

Definition slist_step (op : sop) (l : list Z) : sres (list Z) :=
  match op with
  | SOp o => lift (list_step o l)
  | SSetSlice a b ys => Ok (py_setslice a b ys l, None, [])
  | SDelSlice a b => Ok (py_delslice a b l, None, [])
  | SGetSlice a b => Ok (l, None, py_getslice a b l)
  end.

Definition is_all (a b : option Z) : bool :=
  match a, b with None, None => true | _, _ => false end.

Definition soset_step (op : sop) (o : oset) : sres oset :=
  match op with
  | SOp c => lift (oset_step c o)
  | SSetSlice _ _ _ => Err KeyErr
  | SDelSlice a b => if is_all a b then Ok (os_clear o, None, []) else Err KeyErr
  | SGetSlice a b => Ok (o, None, py_getslice a b (items o))
  end.

(* the duplicate-free list specification of the same calls *)
Definition suspec_step (op : sop) (l : list Z) : sres (list Z) :=
  match op with
  | SOp c => lift (uspec_step c l)
  | SSetSlice _ _ _ => Err KeyErr
  | SDelSlice a b => if is_all a b then Ok ([], None, []) else Err KeyErr
  | SGetSlice a b => Ok (l, None, py_getslice a b l)
  end.

Definition snext {S} (step : sop -> S -> sres S) (s : S) (op : sop) : S :=
  match step op s with Ok (s', _, _) => s' | Err _ => s end.

(* ---------- token codec for the extracted driver ----------
   a bound is two tokens: 0 _ = absent, 1 v = v.
   ops: 9 a.. b.. n y1..yn = set slice; 10 a.. b.. = delete slice; 11 a.. b.. = read slice;
   everything else is Coll.v's coding (code x y, extend = 8 n x1..xn). *)
Definition bound (p v : Z) : option Z := if p =? 0 then None else Some v.

Fixpoint sdecode (fuel : nat) (t : list Z) : list sop :=
  match fuel with
  | O => []
  | S f =>
    match t with
    | 9 :: pa :: va :: pb :: vb :: n :: rest =>
      SSetSlice (bound pa va) (bound pb vb) (take (Z.to_nat n) rest) :: sdecode f (drop (Z.to_nat n) rest)
    | 10 :: pa :: va :: pb :: vb :: rest => SDelSlice (bound pa va) (bound pb vb) :: sdecode f rest
    | 11 :: pa :: va :: pb :: vb :: rest => SGetSlice (bound pa va) (bound pb vb) :: sdecode f rest
    | 8 :: n :: rest =>
      SOp (CExtend (take (Z.to_nat n) rest)) :: sdecode f (drop (Z.to_nat n) rest)
    | c :: a :: b :: rest =>
      SOp (match c with
           | 1 => CAppend a
           | 2 => CInsert a b
           | 3 => CRemove a
           | 4 => CPop a
           | 5 => CClear
           | 6 => CSetItem a b
           | 7 => CDelItem a
           | _ => CClear
           end) :: sdecode f rest
    | _ => []
    end
  end.

(* per op: outcome code, has-result, result, |returned|, returned..., |items|, items... *)
Fixpoint srun {S} (step : sop -> S -> sres S) (its : S -> list Z) (ops : list sop) (s : S) : list Z :=
  match ops with
  | [] => []
  | op :: ops' =>
    let r := step op s in
    let s' := match r with Ok (s', _, _) => s' | Err _ => s end in
    (match r with
     | Ok (_, Some x, ret) => [0; 1; x; zlen ret] ++ ret
     | Ok (_, None, ret) => [0; 0; 0; zlen ret] ++ ret
     | Err e => [exn_code e; 0; 0; 0]
     end) ++ [zlen (its s')] ++ its s' ++ srun step its ops' s'
  end.

(* tokens: mode (1 OrderedSet-based, 2 its list specification, else list-based) ; ops... *)
Definition run_slice (t : list Z) : list Z :=
  match t with
  | mode :: rest =>
    let ops := sdecode (length rest) rest in
    if mode =? 1 then srun soset_step items ops os_empty
    else if mode =? 2 then srun suspec_step (fun l => l) ops []
    else srun slist_step (fun l => l) ops []
  | _ => []
  end.

(* ---------- EList.__setitem__ with a slice, notifications included (valuecontainer.py EList.__setitem__) ----------
   for a feature without opposite and without containment (attributes, plain references): every new value is
   checked first (BadValueError before anything is touched), the replaced elements are reported (REMOVE for one,
   REMOVE_MANY for several, nothing for none), the list is assigned, the new values are reported (ADD for one,
   ADD_MANY for several, and for NONE an ADD whose payload is the empty list itself: NAddEmpty). *)
Inductive snotif : Type :=
| NRemove (x : Z)
| NRemoveMany (xs : list Z)
| NAdd (x : Z)
| NAddMany (xs : list Z)
| NAddEmpty.

Definition elist_setslice (ok : Z -> bool) (a b : option Z) (ys l : list Z) : res (list Z * list snotif) :=
  if forallb ok ys then
    let old := py_getslice a b l in
    Ok (py_setslice a b ys l,
        (match old with [] => [] | [x] => [NRemove x] | _ => [NRemoveMany old] end) ++
        (match ys with [] => [NAddEmpty] | [y] => [NAdd y] | _ => [NAddMany ys] end))
  else Err BadValue.

(* the observer of C05: REMOVE / REMOVE_MANY delete (one occurrence each), ADD / ADD_MANY insert;
   None = it was told something it cannot apply (an absent element, a payload that is no element) *)
Fixpoint remove_each (xs l : list Z) : option (list Z) :=
  match xs with
  | [] => Some l
  | x :: xs' => match remove_first Z.eqb x l with Some l' => remove_each xs' l' | None => None end
  end.

Definition mirror1 (m : list Z) (n : snotif) : option (list Z) :=
  match n with
  | NRemove x => remove_first Z.eqb x m
  | NRemoveMany xs => remove_each xs m
  | NAdd x => Some (m ++ [x])
  | NAddMany xs => Some (m ++ xs)
  | NAddEmpty => None
  end.

Fixpoint mirror (m : list Z) (ns : list snotif) : option (list Z) :=
  match ns with
  | [] => Some m
  | n :: ns' => match mirror1 m n with Some m' => mirror m' ns' | None => None end
  end.

Definition BAD_TOK : Z := -77777.

Definition notif_toks (n : snotif) : list Z :=
  match n with
  | NRemove x => [1; 1; x]
  | NRemoveMany xs => [2; zlen xs] ++ xs
  | NAdd x => [3; 1; x]
  | NAddMany xs => [4; zlen xs] ++ xs
  | NAddEmpty => [5; 0]
  end.

(* tokens: pa va pb vb |ys| ys.. |l| l..   ->   code |l'| l'.. |notifs| (kind n elems..).. ; the value BAD_TOK is ill-typed *)
Definition run_slicenotif (t : list Z) : list Z :=
  match t with
  | pa :: va :: pb :: vb :: ny :: rest =>
    let ys := take (Z.to_nat ny) rest in
    match drop (Z.to_nat ny) rest with
    | nl :: rest' =>
      let l := take (Z.to_nat nl) rest' in
      match elist_setslice (fun x => negb (x =? BAD_TOK)) (bound pa va) (bound pb vb) ys l with
      | Ok (l', ns) => [0; zlen l'] ++ l' ++ [zlen ns] ++ flat_map notif_toks ns
      | Err e => [exn_code e]
      end
    | [] => []
    end
  | _ => []
  end.

(* ---------- the inverse bookkeeping of a slice assignment on a plain reference list ----------
   `inv` = the targets that record "(owner, feature) refers to me" (EObject._inverse_rels, consulted by delete()).
   EList.__setitem__ (slice) RELEASES the replaced elements and then LINKS the new ones (release_then_link, the code
   since fix 98a932c); it used to link first and release afterwards (link_then_release). *)
Definition zmem (x : Z) (l : list Z) : bool := memb Z.eqb x l.
Definition release (old inv : list Z) : list Z := filter (fun x => negb (zmem x old)) inv.
Definition release_then_link (old ys inv : list Z) : list Z := ys ++ release old inv.
Definition link_then_release (old ys inv : list Z) : list Z := release old (ys ++ inv).

(* tokens: order(0 release-then-link, 1 link-then-release) pa va pb vb |ys| ys.. |l| l..  (inv = l)
   -> |l'| l'.. then for every element of l ++ ys whether it is recorded afterwards *)
Definition run_sliceinv (t : list Z) : list Z :=
  match t with
  | order :: pa :: va :: pb :: vb :: ny :: rest =>
    let ys := take (Z.to_nat ny) rest in
    match drop (Z.to_nat ny) rest with
    | nl :: rest' =>
      let l := take (Z.to_nat nl) rest' in
      let a := bound pa va in let b := bound pb vb in
      let old := py_getslice a b l in
      let inv' := if order =? 0 then release_then_link old ys l else link_then_release old ys l in
      let l' := py_setslice a b ys l in
      [zlen l'] ++ l' ++ map (fun x => if zmem x inv' then 1 else 0) (l ++ ys)
    | [] => []
    end
  | _ => []
  end.
