"""C15 — unset features read as their default, privately, and reading is free.
Every built-in / user data type x default source, 2-3 instances, interleavings
of reads, writes, deletes and in-place mutations; the implementation is
compared with Model/Defaults.v (correspondence) and with the property restated
in Python (oracle); the bytes of save() are compared before/after reads."""
import os
import tempfile

from harness import common

PID = 'C15'
NONEZ = -99999


BAD_VALUE = frozenset({1})


def _late(dt, from_string, to_string):
    dt.from_string = from_string
    dt.to_string = to_string
    return dt


def _with_default(dt, v):
    dt.default_value = v
    return dt


def type_table(E):
    """name -> (factory for the EDataType, kind of type default, sample values, literal)"""
    def user(name, icn):
        return lambda: E.EDataType(name, instanceClassName=icn)
    return {
        'EString': (lambda: E.EString, ('val', None), ['a', ''], ('x', 'x')),
        'EInt': (lambda: E.EInt, ('val', 0), [3, -1], ('5', 5)),
        'EBoolean': (lambda: E.EBoolean, ('val', False), [True], ('true', True)),
        'EDouble': (lambda: E.EDouble, ('val', 0.0), [1.5], ('2.5', 2.5)),
        'EBigInteger': (lambda: E.EBigInteger, ('val', None), [10 ** 20], ('7', 7)),
        'EIntegerObject': (lambda: E.EIntegerObject, ('val', None), [4], None),
        'EStringToStringMapEntry': (lambda: E.EStringToStringMapEntry, ('factory', dict), [], None),
        'EFeatureMapEntry': (lambda: E.EFeatureMapEntry, ('factory', dict), [], None),
        'JavaList': (user('JavaList', 'java.util.List'), ('factory', list), [], None),
        'JavaMap': (user('JavaMap', 'java.util.Map'), ('factory', dict), [], None),
        'JavaInt': (user('JavaInt', 'int'), ('val', 0), [9], None),
        'JavaInteger': (user('JavaInteger', 'java.lang.Integer'), ('val', None), [8], None),
        'Color': (None, ('enum', None), [], ('green', None)),
        # literal parsed into a MUTABLE value: every instance must get its own
        'PointList': (lambda: E.EDataType('PointList', eType=list,
                                          from_string=lambda s: [int(x) for x in s.split(',')],
                                          to_string=lambda v: ','.join(str(x) for x in v)),
                      ('val', None), [], ('4,2', [4, 2])),
        # converters assigned AFTER construction (the documented idiom, and the only way for a data type that comes
        # from a loaded .ecore): the default literal must be parsed with them all the same
        'PointListLate': (lambda: _late(E.EDataType('PointListLate', eType=list),
                                        lambda s: [int(x) for x in s.split(',')], lambda v: ','.join(str(x) for x in v)),
                          ('val', None), [], ('4,2', [4, 2])),
        # a factory type that was ALSO given a default value (constructor keyword / setter): whatever a never-set
        # attribute starts out with (read from a probe instance before anything is mutated), it is private
        'FactoryMapWithDefault': (lambda: E.EDataType('Props', dict, type_as_factory=True, default_value={'lang': 'en'}),
                                  ('factory', dict), [], None),
        'FactoryListWithDefault': (lambda: _with_default(E.EDataType('Codes', list, type_as_factory=True), ['x']),
                                   ('factory', list), [], None),
        'CodeLate': (lambda: _late(E.EDataType('CodeLate', instanceClassName='java.lang.Integer'), int, str),
                     ('val', None), [6], ('5', 5)),
    }


class Case:
    def __init__(self, rng, E, thorough):
        self.E = E
        tt = type_table(E)
        names = sorted(tt)
        self.attrs = []
        na = rng.randrange(2, 5)
        for i in range(na):
            tn = rng.choice(names)
            src = rng.choice(['type', 'type', 'explicit', 'literal'])
            _, tdef, samples, lit = tt[tn]
            if src == 'explicit' and not samples:
                src = 'type'
            if src == 'literal' and lit is None:
                src = 'type'
            if tn in ('PointList', 'PointListLate'):
                src = 'literal'
            self.attrs.append({'name': f'a{i}', 'type': tn, 'source': src,
                               'explicit_index': rng.randrange(len(samples)) if samples else 0,
                               # typed in the constructor, or created untyped and typed afterwards (as a metamodel
                               # loaded from a file is), before or after the attribute is added to its class
                               'typed': rng.choice(['ctor', 'ctor', 'late', 'late-after-add'])})
        self.nobj = rng.randrange(2, 4)
        self.enum_build = rng.choice(['ctor', 'ctor', 'bulk', 'clear-bulk'])
        self.ops = []
        for _ in range(rng.randrange(3, 10 if not thorough else 16)):
            o, a = rng.randrange(self.nobj), rng.randrange(na)
            k = rng.choice(['read', 'read', 'write', 'del', 'mutate', 'mutate', 'badwrite'])
            self.ops.append([k, o, a, rng.randrange(0, 3)])

    def to_json(self):
        return {'attrs': self.attrs, 'nobj': self.nobj, 'ops': self.ops, 'enum_build': self.enum_build}


def build(E, cj):
    tt = type_table(E)
    eb = cj.get('enum_build', 'ctor')
    if eb == 'ctor':
        color = E.EEnum('Color', literals=['red', 'green', 'blue'])
    else:
        # the literals arrive in BULK (extend), possibly after an earlier population was cleared: the type's default
        # is the first literal the enumeration holds NOW
        color = E.EEnum('Color')
        if eb == 'clear-bulk':
            color.eLiterals.extend([E.EEnumLiteral(name='old0', value=7), E.EEnumLiteral(name='old1', value=8)])
            color.eLiterals.clear()
        color.eLiterals.extend([E.EEnumLiteral(name=x, value=i) for i, x in enumerate(['red', 'green', 'blue'])])
    A = E.EClass('A')
    feats = []
    info = []
    for ad in cj['attrs']:
        mk, tdef, samples, lit = tt[ad['type']]
        et = color if ad['type'] == 'Color' else mk()
        kw = {}
        if ad['source'] == 'explicit':
            kw['default_value'] = samples[ad['explicit_index']]
        if ad['source'] == 'literal':
            kw['defaultValueLiteral'] = lit[0]
        how = ad.get('typed', 'ctor')
        if how == 'ctor':
            f = E.EAttribute(ad['name'], et, **kw)
            A.eStructuralFeatures.append(f)
        elif how == 'late':
            f = E.EAttribute(ad['name'], **kw)
            f.eType = et
            A.eStructuralFeatures.append(f)
        else:
            f = E.EAttribute(ad['name'], **kw)
            A.eStructuralFeatures.append(f)
            f.eType = et
        feats.append(f)
        # the declared default, computed from the description (not from pyecore)
        if ad['source'] == 'literal' and ad['type'] in ('PointList', 'PointListLate'):
            dflt = ('factory', list, list(lit[1]))
        elif ad['source'] == 'literal':
            dflt = ('val', color.getEEnumLiteral('green') if ad['type'] == 'Color' else lit[1])
        elif ad['source'] == 'explicit':
            dflt = ('val', samples[ad['explicit_index']])
        elif tdef[0] == 'enum':
            dflt = ('val', color.eLiterals[0])
        else:
            dflt = tdef
        writes = list(samples) if samples else []
        if ad['type'] == 'Color':
            writes = [color.eLiterals[1], color.eLiterals[2]]
        info.append({'default': dflt, 'writes': writes, 'et': et})
    pkg = E.EPackage('p', nsURI='http://c15', nsPrefix='p')
    pkg.eClassifiers.extend([A, color])
    return A, feats, info, pkg


class Interner:
    def __init__(self):
        self.vals = []

    def id(self, v):
        for i, w in enumerate(self.vals):
            if type(w) is type(v) and w == v or w is v:
                return i
        self.vals.append(v)
        return len(self.vals) - 1


def view(v, intern):
    if v is None:
        return [1, 0]
    if isinstance(v, dict):
        return [2, len(v)] + [intern.id(x) for x in v.values()]
    if isinstance(v, (list, set, bytearray)):
        return [2, len(v)] + [intern.id(x) for x in v]
    return [0, intern.id(v)]


def run_case(cj, model, out, stats):
    common.use_repo()
    from pyecore import ecore as E
    from pyecore.resources import ResourceSet, URI
    A, feats, info, pkg = build(E, cj)
    for a, ad in enumerate(cj['attrs']):
        if ad['type'] in ('FactoryMapWithDefault', 'FactoryListWithDefault') and info[a]['default'][0] == 'factory':
            pv = getattr(A(), feats[a].name)
            info[a]['default'] = ('factory', info[a]['default'][1], list(pv.values()) if isinstance(pv, dict) else list(pv))
    objs = [A() for _ in range(cj['nobj'])]
    intern = Interner()
    na = len(feats)
    # spec state (the property restated): None = never set -> default
    spec = {}
    mut_counter = [100]

    def spec_view(o, a):
        if (o, a) in spec:
            return spec[(o, a)]
        d = info[a]['default']
        return ('container', list(d[2]) if len(d) > 2 else []) if d[0] == 'factory' else ('val', d[1])

    toks = [cj['nobj'], na]
    for a, ad in enumerate(cj['attrs']):
        d = info[a]['default']
        lit = ad['source'] == 'literal' and d[0] != 'factory'
        exp = ad['source'] == 'explicit'
        tdef = type_table(E)[ad['type']][1]
        if d[0] == 'factory':
            tk, tv = 2, 0
        elif tdef[0] == 'factory':
            tk, tv = 2, 0
        elif tdef[0] == 'enum':
            tk, tv = 1, intern.id(info[a]['et'].eLiterals[0])
        elif tdef[1] is None:
            tk, tv = 0, 0
        else:
            tk, tv = 1, intern.id(tdef[1])
        toks += [int(lit), intern.id(d[1]) if lit else 0, int(exp), intern.id(d[1]) if exp else 0, tk, tv]
    impl_out = []
    sig_base = lambda a: {'property': PID, 'dtype': cj['attrs'][a]['type'], 'source': cj['attrs'][a]['source']}
    applied = []
    for op in cj['ops']:
        k, o, a, x = op
        f = feats[a]
        before_isset = [[ob.eIsSet(ff) for ff in feats] for ob in objs]
        code = None
        if k == 'read':
            getattr(objs[o], f.name) if x != 1 else objs[o].eGet(f)
            code = [1, o, a, 0]
            after_isset = [[ob.eIsSet(ff) for ff in feats] for ob in objs]
            by_name = [[bool(ob.eIsSet(ff.name)) for ff in feats] for ob in objs]
            if by_name != [[bool(x) for x in row] for row in after_isset]:
                out.fail(dict(sig_base(a), clause='isset-by-name-differs'),
                         f'after reading obj{o}.{f.name}: eIsSet by name {by_name} differs from eIsSet by feature {after_isset}', cj)
                return
            if after_isset != before_isset:
                out.fail(dict(sig_base(a), clause='read-changed-isset'), f'reading obj{o}.{f.name} changed eIsSet', cj)
        elif k == 'write':
            ws = info[a]['writes']
            v = None if (x == 0 or not ws) else ws[(x - 1) % len(ws)]
            setattr(objs[o], f.name, v)
            spec[(o, a)] = ('val', v)
            code = [2, o, a, NONEZ if v is None else intern.id(v)]
        elif k == 'badwrite':
            # a value no declared type accepts: must be refused and change nothing (for the model: a read)
            try:
                setattr(objs[o], f.name, BAD_VALUE) if x != 1 else objs[o].eSet(f, BAD_VALUE)
                out.fail(dict(sig_base(a), clause='nonconforming-accepted'), f'obj{o}.{f.name} = frozenset accepted', cj)
                return
            except E.BadValueError:
                pass
            code = [1, o, a, 0]
        elif k == 'del':
            delattr(objs[o], f.name)
            d = info[a]['default']
            spec[(o, a)] = ('container', list(d[2]) if len(d) > 2 else []) if d[0] == 'factory' else ('val', d[1])
            code = [3, o, a, 0]
        elif k == 'mutate':
            cur = getattr(objs[o], f.name)
            mut_counter[0] += 1
            xv = mut_counter[0]
            if isinstance(cur, dict):
                cur[str(xv)] = xv
            elif isinstance(cur, list):
                cur.append(xv)
            code = [4, o, a, intern.id(xv)]
            sv = spec_view(o, a)
            if sv[0] == 'container' and isinstance(cur, (dict, list)):
                spec[(o, a)] = ('container', sv[1] + [xv])
        applied.append(code)
        stats['ops'][k] = stats['ops'].get(k, 0) + 1
        # observe every (object, attribute) WITHOUT using it for the next decision
        for oi, ob in enumerate(objs):
            for ai, ff in enumerate(feats):
                isset = 1 if ob.eIsSet(ff) else 0
                if bool(ob.eIsSet(ff.name)) != bool(isset):
                    out.fail(dict(sig_base(ai), clause='isset-by-name-differs'),
                             f'after {op}: obj{oi}.eIsSet({ff.name!r}) is {ob.eIsSet(ff.name)} but eIsSet(<the feature>) is {bool(isset)}', cj)
                    return
                val = getattr(ob, ff.name)
                init = info[ai]['default'][2] if len(info[ai]['default']) > 2 else []
                mval = val[len(init):] if (init and isinstance(val, list) and val[:len(init)] == init) else val
                impl_out += [isset] + view(mval, intern)
                sv = spec_view(oi, ai)
                got = ('container', list(val.values()) if isinstance(val, dict) else list(val)) \
                    if isinstance(val, (dict, list)) else ('val', val)
                ok = got == sv and (got[0] != 'val' or type(got[1]) is type(sv[1]) or got[1] is sv[1])
                if not ok:
                    clause = 'default' if (oi, ai) not in spec else ('private' if k == 'mutate' and (oi, ai) != (o, a) else 'value')
                    if k == 'mutate' and (oi, ai) != (o, a):
                        clause = 'private'
                    out.fail(dict(sig_base(ai), clause=clause),
                             f'after {op}: obj{oi}.{ff.name} reads {val!r}, expected {sv}', cj)
                    return
    # --- the same history on fresh instances WITHOUT observing anything in between: what an attribute reads
    #     at the end may not depend on whether (or when) it was looked at before ---
    lazy = [A() for _ in range(cj['nobj'])]
    lazy_ok = True
    cnt2 = [100]
    for op in cj['ops']:
        k, o, a, x = op
        f = feats[a]
        try:
            if k == 'read':
                getattr(lazy[o], f.name) if x != 1 else lazy[o].eGet(f)
            elif k == 'write':
                ws = info[a]['writes']
                setattr(lazy[o], f.name, None if (x == 0 or not ws) else ws[(x - 1) % len(ws)])
            elif k == 'badwrite':
                try:
                    setattr(lazy[o], f.name, BAD_VALUE) if x != 1 else lazy[o].eSet(f, BAD_VALUE)
                except E.BadValueError:
                    pass
            elif k == 'del':
                delattr(lazy[o], f.name)
            elif k == 'mutate':
                cur = getattr(lazy[o], f.name)
                cnt2[0] += 1
                if isinstance(cur, dict):
                    cur[str(cnt2[0])] = cnt2[0]
                elif isinstance(cur, list):
                    cur.append(cnt2[0])
        except Exception as e:  # noqa
            out.fail(dict(sig_base(a), clause='unobserved-run-raised'), f'{op} raised {type(e).__name__} in the unobserved run only', cj)
            lazy_ok = False
            break
    if lazy_ok:
        for oi, ob in enumerate(lazy):
            for ai, ff in enumerate(feats):
                val = getattr(ob, ff.name)
                ref = getattr(objs[oi], ff.name)
                nv = ('container', list(val.values()) if isinstance(val, dict) else list(val)) if isinstance(val, (dict, list)) else ('val', val)
                nr = ('container', list(ref.values()) if isinstance(ref, dict) else list(ref)) if isinstance(ref, (dict, list)) else ('val', ref)
                if nv != nr or bool(ob.eIsSet(ff)) != bool(objs[oi].eIsSet(ff)):
                    out.fail(dict(sig_base(ai), clause='depends-on-being-observed'),
                             f'obj{oi}.{ff.name} reads {val!r} (isset {ob.eIsSet(ff)}) when nothing was read in between, '
                             f'{ref!r} (isset {objs[oi].eIsSet(ff)}) when every attribute was read after every call', cj)
                    break
            else:
                continue
            break
    stats['unobserved_runs'] = stats.get('unobserved_runs', 0) + 1
    for c in applied:
        toks += c
    mo = model.ask('defaults', toks)
    # the observation loop above READS every feature after every op, which the model must do as well:
    # reads are free (theorem C15_read_changes_no_value) so the model's unread view must equal it.
    if mo != impl_out:
        out.diff(f'defaults model vs impl: model {mo[:40]} impl {impl_out[:40]}', cj)
    # save bytes before / after reads
    fresh = [A() for _ in range(2)]
    for i, op in enumerate(cj['ops']):
        k, o, a, x = op
        if k == 'write' and info[a]['writes'] and x != 0 and cj['attrs'][a]['type'] not in ('Color',):
            setattr(fresh[o % 2], feats[a].name, info[a]['writes'][(x - 1) % len(info[a]['writes'])])
    with tempfile.TemporaryDirectory() as td:
        rset = ResourceSet()
        rset.metamodel_registry[pkg.nsURI] = pkg
        res = rset.create_resource(URI(os.path.join(td, 'm.xmi')))
        res.extend(fresh)
        try:
            res.save()
            b1 = open(os.path.join(td, 'm.xmi'), 'rb').read()
            for ob in fresh:
                for ff in feats:
                    getattr(ob, ff.name)
                    ob.eGet(ff)
            res.save()
            b2 = open(os.path.join(td, 'm.xmi'), 'rb').read()
            stats['saves'] += 1
            if b1 != b2:
                out.fail({'property': PID, 'clause': 'read-changed-save', 'dtype': 'any', 'source': 'any'},
                         'bytes written by save() differ after reading every feature', cj)
        except Exception as e:  # noqa
            stats['save_errors'] = stats.get('save_errors', 0) + 1


def run(ctx, out):
    common.use_repo()
    from pyecore import ecore as E
    thorough = ctx.tier == 'thorough'
    n = 600 if not thorough else 12000
    model = common.Model()
    stats = {'ops': {}, 'saves': 0}
    samples = []
    distinct = set()
    types = {}
    for i in range(n):
        c = Case(ctx.rng, E, thorough)
        cj = c.to_json()
        for ad in cj['attrs']:
            key = ad['type'] + '/' + ad['source']
            types[key] = types.get(key, 0) + 1
        distinct.add(repr(cj))
        run_case(cj, model, out, stats)
        if len(samples) < 3:
            samples.append(cj)
    model.close()
    out.coverage.update({
        'evaluations': n, 'distinct_nontrivial': len(distinct),
        'rule': 'a case = 2-4 attribute declarations (data type x default source) on one class, 2-3 instances, '
                '3-9 (thorough 15) reads/writes/deletes/in-place mutations; every (object, attribute) is observed '
                'after every call; distinct = distinct (declarations, history)',
        'traces_validated_against_impl': n, 'ops_by_kind': stats['ops'], 'declarations_by_type_and_source': types,
        'save_before_after_reads_compared': stats['saves'], 'save_errors': stats.get('save_errors', 0),
        'samples': samples,
    })
    out.assumptions += ['explicit default values supplied by the user are immutable (a user-supplied mutable default is shared by design)',
                        'eIsSet after `del` is not part of the property (pyecore reports True)']


def builtin_scenarios(ctx, out):
    """the classes of the Ecore metamodel itself (EAnnotation.details and any other map / list valued attribute of a
    concrete built-in class): two instances never share the container a never-set attribute starts out with, a
    third one created afterwards starts from the same content as the first did, del restores it"""
    common.use_repo()
    from pyecore import ecore as E
    cnt = 0
    for cls in [c for c in E.eClass.eClassifiers if isinstance(c, E.EClass) and not c.abstract]:
        for f in cls.eAllStructuralFeatures():
            if not isinstance(f, E.EAttribute):
                continue
            try:
                a, b = cls(), cls()
                va = getattr(a, f.name)
            except Exception:  # noqa
                continue
            if not isinstance(va, (dict, list, set)) or hasattr(va, 'feature'):
                continue            # (pyecore's own collections of many-valued features: part M)
            cnt += 1
            start = list(va.items()) if isinstance(va, dict) else list(va)
            vb = getattr(b, f.name)
            sig = {'property': PID, 'clause': 'private', 'dtype': f'{cls.name}.{f.name}', 'source': 'built-in'}
            case = {'scenario': 'builtin', 'seed': ctx.seed, 'tier': ctx.tier, 'history': [[cls.name, f.name]]}
            if isinstance(va, dict):
                va['k'] = 'v'
            elif isinstance(va, list):
                va.append('v')
            else:
                va.add('v')
            now_b = list(getattr(b, f.name).items()) if isinstance(vb, dict) else list(getattr(b, f.name))
            c = cls()
            vc = getattr(c, f.name)
            now_c = list(vc.items()) if isinstance(vc, dict) else list(vc)
            if va is vb or now_b != start:
                out.fail(sig, f'two {cls.name} objects share their never-set {f.name}: editing one in place makes the other read {now_b}', case)
            elif now_c != start:
                out.fail(dict(sig, clause='default'), f'a {cls.name} created after another one\'s {f.name} was edited in place starts with {now_c}, the first started with {start}', case)
    out.coverage['builtin_container_attributes_checked'] = cnt


def exotic_type_scenarios(ctx, out):
    """user data types given by a Java class name of a concrete collection, and factory data types over Python classes
    other than dict / list / set: whatever a never-set attribute starts out with, two objects never hold the SAME
    mutable object, and an in-place edit through one is invisible to the other and to objects created later"""
    common.use_repo()
    import collections
    from pyecore import ecore as E

    class MyList(list):
        pass

    class Bag:
        def __init__(self):
            self.items = []
    IMMUTABLE = (int, str, bool, float, tuple, frozenset, bytes, type(None))
    makers = [(f'icn:{n}', (lambda n=n: E.EDataType('J', instanceClassName=n))) for n in
              ('java.util.HashMap', 'java.util.LinkedHashMap', 'java.util.TreeMap', 'java.util.ArrayList', 'java.util.LinkedList',
               'java.util.HashSet', 'java.util.Map', 'java.util.List', 'java.util.Set', 'java.util.Collection')]
    makers += [(f'factory:{c.__name__}', (lambda c=c: E.EDataType('F', c, type_as_factory=True))) for c in
               (collections.OrderedDict, collections.deque, collections.defaultdict, MyList, Bag, bytearray)]
    cnt = 0
    for label, mk in makers:
        for how in ('ctor', 'late'):
            try:
                dt = mk()
                A = E.EClass('A')
                if how == 'ctor':
                    f = E.EAttribute('p', dt)
                else:
                    f = E.EAttribute('p')
                    f.eType = dt
                A.eStructuralFeatures.append(f)
                a, b = A(), A()
                va, vb = a.p, b.p
            except Exception:  # noqa  (a declaration pyecore does not support: not this property's subject)
                continue
            cnt += 1
            case = {'scenario': 'exotic', 'seed': ctx.seed, 'tier': ctx.tier, 'history': [[label, how]]}
            sig = {'property': PID, 'clause': 'private', 'dtype': label, 'source': how}
            if va is vb and not isinstance(va, IMMUTABLE):
                out.fail(sig, f'{label} ({how}): two objects hold the very same {type(va).__name__} object as their never-set value', case)
                continue
            before = repr(vb)
            try:
                if isinstance(va, dict):
                    va['k'] = 'v'
                elif isinstance(va, (list, collections.deque, bytearray)):
                    va.append(7)
                elif isinstance(va, set):
                    va.add(7)
                elif isinstance(va, Bag):
                    va.items.append(7)
            except Exception:  # noqa
                continue
            c = A()
            if repr(b.p) != before and not repr(b.p).startswith('<'):
                out.fail(sig, f'{label} ({how}): editing a.p in place changed what b.p reads: {before} -> {b.p!r}', case)
            elif isinstance(va, (dict, list, set, collections.deque, bytearray)) and repr(c.p) != before:
                out.fail(dict(sig, clause='default'), f'{label} ({how}): an object created after the edit starts with {c.p!r}, the others started with {before}', case)
            elif a.eIsSet(f) or b.eIsSet(f):
                out.fail(dict(sig, clause='read-changed-isset'), f'{label} ({how}): reading marked the feature as set', case)
    out.coverage['exotic_data_type_declarations'] = cnt


def ctor_scenarios(ctx, out):
    """values given as CONSTRUCTOR keywords are writes like any other: A(x=v) reads v - also v = None for an attribute
    whose declared default is not None -, reports eIsSet, and a sibling created bare still reads the default"""
    common.use_repo()
    from pyecore import ecore as E
    rng = common.rng_for(ctx.seed, 'C15:ctor')
    n = 60 if ctx.tier != 'thorough' else 1000
    cnt = 0
    for it in range(n):
        A = E.EClass('A')
        decls = []
        for i in range(rng.randrange(1, 4)):
            kind = rng.choice(['int-type', 'int-explicit', 'str-literal', 'bool-type', 'str-none'])
            if kind == 'int-type':
                f, d = E.EAttribute(f'a{i}', E.EInt), 0
            elif kind == 'int-explicit':
                f, d = E.EAttribute(f'a{i}', E.EInt, default_value=5), 5
            elif kind == 'str-literal':
                f, d = E.EAttribute(f'a{i}', E.EString, defaultValueLiteral='anon'), 'anon'
            elif kind == 'bool-type':
                f, d = E.EAttribute(f'a{i}', E.EBoolean), False
            else:
                f, d = E.EAttribute(f'a{i}', E.EString), None
            A.eStructuralFeatures.append(f)
            decls.append((f, d, kind))
        kw, want = {}, {}
        for f, d, kind in decls:
            r = rng.random()
            if r < 0.4:
                kw[f.name] = None
                want[f.name] = None
            elif r < 0.7:
                v = {'int-type': 7, 'int-explicit': 5, 'str-literal': 'x', 'bool-type': True, 'str-none': 'y'}[kind]
                kw[f.name] = v
                want[f.name] = v
        hist = [[f.name, kind] for f, d, kind in decls] + [['ctor', {k: repr(v) for k, v in kw.items()}]]
        case = {'scenario': 'ctor', 'seed': ctx.seed, 'tier': ctx.tier, 'history': hist}
        try:
            a, b = A(**kw), A()
        except Exception as e:  # noqa
            out.fail({'property': PID, 'clause': 'ctor-raised', 'dtype': 'any', 'source': 'ctor'}, f'A(**{kw!r}) raised {type(e).__name__}: {e}', case)
            continue
        cnt += 1
        for f, d, kind in decls:
            got = getattr(a, f.name)
            if f.name in want:
                if got != want[f.name] or type(got) is not type(want[f.name]) or not a.eIsSet(f):
                    out.fail({'property': PID, 'clause': 'value', 'dtype': kind, 'source': 'ctor'},
                             f'A({f.name}={want[f.name]!r}) reads {got!r} (eIsSet {a.eIsSet(f)}); declared default {d!r}', case)
                    break
            elif got != d or a.eIsSet(f):
                out.fail({'property': PID, 'clause': 'default', 'dtype': kind, 'source': 'ctor'},
                         f'{f.name} was not given to the constructor but reads {got!r} (eIsSet {a.eIsSet(f)}), default {d!r}', case)
                break
            if getattr(b, f.name) != d or b.eIsSet(f):
                out.fail({'property': PID, 'clause': 'private', 'dtype': kind, 'source': 'ctor'},
                         f'a sibling created bare reads {f.name}={getattr(b, f.name)!r} (eIsSet {b.eIsSet(f)}), default {d!r}', case)
                break
    out.coverage['constructor_keyword_objects'] = cnt


def many_valued_part(ctx, out):
    """part M: multi-valued attributes (unique and list collections over EInt / EString / an enumeration) next to
    single-valued ones, on the kernel model: values AND eIsSet flags of every (object, feature) after every call
    (append/insert/remove/pop/clear/extend/update/+=/whole assignment - the empty ones included -, del, reads) are
    compared with Model/Kernel.v, whose behaviour Props/C15.v states (C15_many_valued_*)."""
    from harness import kprop
    main_cov = dict(out.coverage)
    out.coverage.clear()
    kprop.run(ctx, out, PID, [], {'outcome', 'values', 'isset'}, 400, 8000,
              pool=['ains', 'ainl', 'asl', 'aes', 'ai', 'as', 'ae'], weights={'delete': 0.0, 'res': 0.0}, p_wrong=0.05, nres=0)
    part = dict(out.coverage)
    out.coverage.clear()
    out.coverage.update(main_cov)
    out.coverage['multi_valued_kernel_part'] = part


_run_single = run


def run(ctx, out):   # noqa: F811
    _run_single(ctx, out)
    many_valued_part(ctx, out)
    builtin_scenarios(ctx, out)
    ctor_scenarios(ctx, out)
    exotic_type_scenarios(ctx, out)


def replay(ctx, rep):
    if rep.get('case', {}).get('scenario') in ('builtin', 'ctor', 'exotic'):
        return common.scenario_replay(ctx, rep, {'builtin': builtin_scenarios, 'ctor': ctor_scenarios, 'exotic': exotic_type_scenarios})
    if 'templates' in rep.get('case', {}) or 'mm' in rep.get('case', {}):
        from harness import krun
        r = krun.Run(rep['case'], []).run()
        for s in r.steps:
            print(s['op'], '->', s['outcome'])
        print('kernel case re-run on the implementation; compare with the model through ./check C15')
        return 0
    common.use_repo()
    o = common.Outcome(PID, 'quick', 0)
    m = common.Model()
    run_case(rep['case'], m, o, {'ops': {}, 'saves': 0})
    m.close()
    for f in o.oracle_fails:
        print('REPRODUCED', f['what'])
    return 1 if o.oracle_fails else 0
