"""Encode kernel cases for the extracted Coq model (Model/KernelIO.v), parse its
answer into the same structures kimpl.World produces, and compare."""
from harness import kgen

NONE_TOK = -99999
TYPE_TAG = {'EInt': 1, 'EString': 2, 'EBoolean': 3, 'EDouble': 4, 'EJavaObject': 5}
TYPE_DEFAULT = {'EInt': [2, 0], 'EString': [0, 0], 'EBoolean': [4, 0], 'EDouble': [6, 0], 'EJavaObject': [0, 0]}
OPCODE = {'set': 1, 'unset': 2, 'del': 3, 'assign': 4, 'append': 5, 'add': 5, 'insert': 6, 'remove': 7, 'pop': 8,
          'clear': 9, 'extend': 10, 'update': 10, 'iadd': 10, 'setitem': 11, 'delitem': 12, 'delete': 13,
          'rappend': 14, 'rremove': 15, 'rextend': 16, 'read': 17}
MODELLED = set(OPCODE) | {'extendself', 'extendfrom'}


def vtok(v):
    if v is None:
        return [0, 0]
    t = v[0]
    if t == 'o':
        return [1, v[1]]
    if t == 'i':
        return [2, v[1]]
    if t == 's':
        return [3, v[1]]
    if t == 'b':
        return [4, v[1]]
    if t == 'f':
        return [6, v[1]]
    if t == 'e':
        return [5, v[1] * 100 + v[2]]
    if t == 'k':
        return [2, 777]       # a classifier object: for the model just another non-object value (only offered to references)
    raise AssertionError(v)


def encode_mm(case):
    mm = case['mm']
    cidx = {c['name']: i for i, c in enumerate(mm['classes'])}
    eidx = {e['name']: i for i, e in enumerate(mm['enums'])}
    ff = kgen.flat_features(mm)
    opp = kgen.opposite_index(mm)
    toks = [len(ff)]
    for i, (cn, fd) in enumerate(ff):
        if fd['kind'] == 'ref':
            tt, tp = 0, cidx[fd['type']]
            dflt = [0, 0]
        elif fd['type'] in TYPE_TAG:
            tt, tp = TYPE_TAG[fd['type']], 0
            dflt = vtok(fd['default']) if fd.get('default') is not None else TYPE_DEFAULT[fd['type']]
        else:
            tt, tp = 6, eidx[fd['type']]
            dflt = vtok(fd['default']) if fd.get('default') is not None else [5, eidx[fd['type']] * 100]
        toks += [cidx[cn], int(fd['kind'] == 'ref'), int(fd['many']), int(fd['unique']), int(fd['containment']),
                 -1 if opp[i] is None else opp[i], tt, tp] + dflt
    sup = kgen.supers_closure(mm)
    pairs = []
    for c in mm['classes']:
        pairs.append((cidx[c['name']], cidx[c['name']]))
        for s in sorted(sup[c['name']]):
            pairs.append((cidx[c['name']], cidx[s]))
    toks += [len(pairs)] + [x for p in pairs for x in p]
    toks += [len(case['objs'])] + [cidx[c] for c in case['objs']]
    strings = case['strings']
    toks += [len(mm['enums'])]
    for e in mm['enums']:
        toks += [len(e['literals'])] + [strings.index(l) for l in e['literals']]
    toks += [case.get('nres', 0)]
    return toks


def encode_op(op):
    k = op[0]
    code = OPCODE[k]
    a = b = c = d = 0
    vals = []
    if k in ('set',):
        a, b, vals = op[1], op[2], [op[3]]
    elif k in ('unset', 'del', 'clear', 'read'):
        a, b = op[1], op[2]
    elif k in ('assign', 'extend', 'update', 'iadd'):
        a, b, vals = op[1], op[2], list(op[3])
    elif k in ('append', 'add', 'remove'):
        a, b, vals = op[1], op[2], [op[3]]
    elif k in ('insert', 'setitem'):
        a, b, c, vals = op[1], op[2], op[3], [op[4]]
    elif k == 'pop':
        a, b, c = op[1], op[2], (-1 if op[3] is None else op[3])
    elif k == 'delitem':
        a, b, c = op[1], op[2], op[3]
    elif k == 'delete':
        a, b = op[1], op[2]
    elif k in ('rappend', 'rremove'):
        a, b = op[1], op[2]
    elif k == 'rextend':
        a, vals = op[1], [['o', i] for i in op[2]]
    toks = [code, a, b, c, d, len(vals)]
    for v in vals:
        toks += vtok(v)
    return toks


class Reader:
    def __init__(self, toks):
        self.t = toks
        self.i = 0

    def get(self):
        v = self.t[self.i]
        self.i += 1
        return v

    def value(self):
        return [self.get(), self.get()]

    def payload(self):
        if self.get() == 0:
            return ('one', tuple(self.value()))
        n = self.get()
        return ('many', [tuple(self.value()) for _ in range(n)])


def parse_steps(case, toks):
    mm = case['mm']
    app = [kgen.applicable(mm, c) for c in case['objs']]
    r = Reader(toks)
    steps = []
    for _ in case['history']:
        code = r.get()
        hasret = r.get()
        ret = r.value()
        nlog = r.get()
        log = []
        for _ in range(nlog):
            o, f, k = r.get(), r.get(), r.get()
            old, new = r.payload(), r.payload()
            res = r.get()
            log.append((o, f, k, old, new, res))
        d = {'objs': [], 'res': []}
        for oi in range(len(case['objs'])):
            od = {'feats': {}, 'isset': {}}
            for fi in app[oi]:
                f2 = r.get()
                assert f2 == fi, (f2, fi)
                od['isset'][fi] = r.get()
                n = r.get()
                od['feats'][fi] = [r.value() for _ in range(n)]
            od['container'] = r.get()
            od['cfeature'] = r.get()
            od['resource'] = r.get()
            d['objs'].append(od)
        for _ in range(case.get('nres', 0)):
            n = r.get()
            d['res'].append([r.get() for _ in range(n)])
        views = []
        for oi in range(len(case['objs'])):
            n = r.get()
            ec = [r.get() for _ in range(n)]
            n = r.get()
            ea = [r.get() for _ in range(n)]
            views.append({'econtents': ec, 'eallcontents': ea, 'eroot': r.get()})
        steps.append({'outcome': (code, ret if hasret else None), 'log': log, 'dump': d, 'views': views})
    assert r.i == len(toks), (r.i, len(toks))
    return steps


def run_model(model, case):
    toks = encode_mm(case)
    for op in case['history']:
        toks += encode_op(op)
    return parse_steps(case, model.ask('kernel', toks))


def flatten_log(entries):
    out = []
    for (n, f, k, old, new) in entries:
        if k in (3, 4):
            items = [old[1]] if old[0] == 'one' else list(old[1])
            out += [(n, f, 'removed', it) for it in items]
        elif k in (0, 1):
            items = [new[1]] if new[0] == 'one' else list(new[1])
            out += [(n, f, 'added', it) for it in items]
        elif old != new:       # a None -> None UNSET is not a change; which slot gets it depends on set order
            out.append((n, f, k, old, new))
    return out


UNORDERED_LOG_OPS = ('delete', 'rappend', 'rextend')


def compare_step(case, op, impl_step, model_step, projection):
    """list of human-readable differences in the requested projection"""
    diffs = []
    io, mo = impl_step['outcome'], model_step['outcome']
    if 'outcome' in projection:
        if io[0] != mo[0]:
            diffs.append(f'outcome impl={io[0]} model={mo[0]}')
        elif io[0] == 0 and (io[1] or None) != (mo[1] or None) and op[0] == 'pop':
            diffs.append(f'return value impl={io[1]} model={mo[1]}')
    idump, mdump = impl_step['dump'], model_step['dump']
    for oi, a in enumerate(idump['objs']):
        if a.get('bad_index'):
            diffs.append(f'obj{oi}: index() of features {a["bad_index"]} disagrees with the position of iteration '
                         f'(the model\'s unique collections are duplicate-free lists whose index is the position)')
    for oi, (a, b) in enumerate(zip(idump['objs'], mdump['objs'])):
        if 'values' in projection and a['feats'] != b['feats']:
            for fi in a['feats']:
                if a['feats'][fi] != b['feats'][fi]:
                    diffs.append(f'obj{oi}.f{fi} impl={a["feats"][fi]} model={b["feats"][fi]}')
        if 'refs-as-sets' in projection:
            for fi in a['feats']:
                sa = sorted(tuple(v) for v in a['feats'][fi] if v[0] == 1)
                sb = sorted(tuple(v) for v in b['feats'][fi] if v[0] == 1)
                if sa != sb:
                    diffs.append(f'obj{oi}.f{fi} (as set) impl={sa} model={sb}')
        if 'isset' in projection and a['isset'] != b['isset']:
            diffs.append(f'obj{oi} isset impl={a["isset"]} model={b["isset"]}')
        if 'ownership' in projection:
            for key in ('container', 'cfeature', 'resource'):
                if a[key] != b[key]:
                    diffs.append(f'obj{oi}.{key} impl={a[key]} model={b[key]}')
    if 'ownership' in projection and idump['res'] != mdump['res']:
        diffs.append(f'resource contents impl={idump["res"]} model={mdump["res"]}')
    if 'log' in projection:
        il = [(n, f, k, old, new) for (who, n, f, k, old, new) in impl_step['log'] if who[0] == 'o']
        ml = [(n, f, k, old, new) for (n, f, k, old, new, res) in model_step['log']]
        ir = sorted((who[1], n, f, k, repr(old), repr(new)) for (who, n, f, k, old, new) in impl_step['log'] if who[0] == 'r')
        mr = sorted((res, n, f, k, repr(old), repr(new)) for (n, f, k, old, new, res) in model_step['log'] if res != NONE_TOK)
        if op[0] in UNORDERED_LOG_OPS:
            # delete() walks a Python set: order is unspecified, and REMOVE_MANY payloads depend on it;
            # compare the individual changes as a multiset
            same = sorted(map(repr, flatten_log(il))) == sorted(map(repr, flatten_log(ml)))
        else:
            same = il == ml
        if op[0] == 'setitem' and not kgen.flat_features(case['mm'])[op[2]][1]['unique']:
            same = True   # EList.__setitem__: known finding (no REMOVE, ADD_MANY for str values); state still compared
        if not same:
            diffs.append(f'notifications impl={il} model={ml}')
        if op[0] == 'setitem' and not kgen.flat_features(case['mm'])[op[2]][1]['unique']:
            ir = mr = []
        if op[0] in UNORDERED_LOG_OPS:
            ir = mr = []     # whether the notifier is still under the resource when notified depends on set order
        if ir != mr:
            diffs.append(f'resource-listener notifications impl={ir} model={mr}')
    if 'views' in projection and 'views' in impl_step:
        for oi, (a, b) in enumerate(zip(impl_step['views'], model_step['views'])):
            if sorted(a['econtents']) != sorted(b['econtents']) or sorted(a['eallcontents']) != sorted(b['eallcontents']) \
                    or a['eroot'] != b['eroot']:
                diffs.append(f'obj{oi} views impl={a} model={b}')
    return diffs
