"""Scenario families for C09 (and, with fmt='xmi', C08) that run on the implementation only.

  save_history_scenarios   ONE resource object goes through a history of saves with NO load in between:
      successful saves (same output / other outputs), FAILING saves (output in a directory that does not
      exist, output that is a directory, a value whose to_string raises in the middle of the document),
      and edits that shift the positions of referenced objects (insert front, remove, move, roots removed,
      id attributes renamed).  The bytes of every successful save are kept with the description of the
      model at that moment; when the history is over every one of them is loaded in a fresh ResourceSet
      and compared with that description.  URI-fragment mode, id attributes, uuid mode.
  subpackage_scenarios     metamodels with nested sub-packages holding SAME-NAMED classes (and same-named
      enumerations / data types) whose same-named features differ in type or kind (EString / EInt / enum /
      custom data type, single / many, attribute / reference / containment); instances of all of them in
      one document, in random order -- in their typed containment slots, in a polymorphic slot (abstract
      supertype: xsi:type / "eClass" needed) and as further roots; the namespace prefixes of the 3-4 packages
      are distinct, all equal, equal in pairs, or look like the names the XMI writer gives to a prefix that
      is taken (p, p_1, p_2 in any order); enumeration literals are renamed in place after they were added
      (before and after instances exist) and literals are added (and used) after instances exist; the
      round trip is compared exactly: class identity (package path), value AND Python type of every
      attribute value (a str or None where a literal is expected is a difference, so is a literal of the
      other package's enumeration), reference targets by name.  Every package is registered in the
      resource sets under its own nsURI (XMI names a package by it).
  two_file_scenarios       TWO resources (one or two directories) referring to each other: every mix of id modes
      (URI fragment / id attribute / uuid) per resource, references single and many, unidirectional and
      bidirectional (1-1, 1-n, n-n with unique ends, a pair entered from either end), both save orders, both
      load orders in a fresh ResourceSet, every proxy followed.  Compared with the saved model: targets by
      name, unique ends as SETS of resolved targets (no `in`: C14's known stale-hash findings; the order of
      a bidirectional end across files and, in XMI, of mixed local / remote targets is C14's F-C14-order-*),
      no element twice under a unique feature (a proxy and its target are one element), symmetric
      opposites; loading and following must not raise.
  datatype_scenarios       every built-in data type, the wrapper types (EBooleanObject, EIntegerObject, ...)
      included, single and many-valued, None and defaults, both values of SERIALIZE_DEFAULT_VALUES, compared
      exactly (value AND Python type).
  feature_flag_scenarios   attributes / references / containments (single and many) flagged volatile, unsettable,
      changeable=False, transient, derived in many combinations: save leaves out exactly the transient and
      derived ones; every other value, target and containment subtree must come back.

Each family draws from its own PRNG stream common.rng_for(seed, '<prop>:<family>'); a failing case carries
'scenario', 'seed', 'tier', 'history' and is replayed by common.scenario_replay.
"""
import os
import tempfile

from harness import common


def _classes(fmt):
    common.use_repo()
    from pyecore.resources import ResourceSet, URI
    from pyecore.resources.json import JsonResource
    return ResourceSet, URI, JsonResource


def _rset(fmt, pkg):
    ResourceSet, URI, JsonResource = _classes(fmt)
    rs = ResourceSet()
    if fmt == 'json':
        rs.resource_factory['json'] = lambda uri, **kw: JsonResource(uri, **kw)
    def register(p):
        # (XMI names a package by its own nsURI: sub-packages are registered like their root)
        rs.metamodel_registry[p.nsURI] = p
        for q in p.eSubpackages:
            register(q)
    register(pkg)
    return rs


class Frag:
    """value of a custom data type whose to_string can be made to raise"""

    def __init__(self, text, boom=False):
        self.text, self.boom = text, boom

    def __eq__(self, other):
        return isinstance(other, Frag) and other.text == self.text

    def __hash__(self):
        return hash(self.text)


def _frag_to_string(v):
    if v.boom:
        raise ValueError(f'the value {v.text!r} cannot be written')
    return v.text


# ---------------------------------------------------------------- (1) save histories on one resource object
def _history_metamodel(with_ids):
    from pyecore.ecore import EClass, EAttribute, EReference, EString, EPackage, EDataType
    pkg = EPackage('sh', nsURI=f'http://verif/c09/savehistory/{int(with_ids)}', nsPrefix='sh')
    FragT = EDataType('FragT', Frag, from_string=lambda s: Frag(s), to_string=_frag_to_string)
    Node = EClass('Node')
    Node.eStructuralFeatures.append(EAttribute('name', EString))
    Node.eStructuralFeatures.append(EAttribute('frag', FragT))
    if with_ids:
        Node.eStructuralFeatures.append(EAttribute('code', EString, iD=True))
    Node.eStructuralFeatures.append(EReference('kids', Node, upper=-1, containment=True))
    Node.eStructuralFeatures.append(EReference('slot', Node, containment=True))
    Node.eStructuralFeatures.append(EReference('fav', Node))
    Node.eStructuralFeatures.append(EReference('featured', Node, upper=-1))
    pkg.eClassifiers.extend([FragT, Node])
    return pkg, Node


def _history_dump(roots, with_ids):
    """every object under its (unique) name; references by target name"""
    d = {}

    def walk(o):
        d[o.name] = {'kids': [k.name for k in o.kids], 'slot': o.slot.name if o.slot is not None else None,
                     'fav': o.fav.name if o.fav is not None else None, 'featured': [x.name for x in o.featured],
                     'frag': o.frag.text if o.frag is not None else None,
                     'code': o.code if with_ids else None}
        for k in o.kids:
            walk(k)
        if o.slot is not None:
            walk(o.slot)
    for r in roots:
        walk(r)
    return {'roots': [r.name for r in roots], 'objs': d}


def save_history_scenarios(ctx, out, fmt='json', prop='C09', scale=1.0):
    ResourceSet, URI, JsonResource = _classes(fmt)
    rng = common.rng_for(ctx.seed, f'{prop}:save-history')
    n = max(1, int((150 if ctx.tier != 'thorough' else 1500) * scale))
    ext = 'json' if fmt == 'json' else 'xmi'
    st = {'histories': 0, 'saves_ok': 0, 'saves_failed': 0, 'documents_loaded_and_compared': 0,
          'after_a_failed_save': 0, 'modes': {}, 'failing_save_kinds': {}}
    metamodels = {False: _history_metamodel(False), True: _history_metamodel(True)}
    for it in range(n):
        mode = rng.choice(['fragment', 'fragment', 'ids', 'uuid'])
        st['modes'][mode] = st['modes'].get(mode, 0) + 1
        with_ids = mode == 'ids'
        pkg, Node = metamodels[with_ids]
        serial = [0]

        def new():
            serial[0] += 1
            o = Node(name=f'n{serial[0]}')
            if with_ids and rng.random() < 0.7:
                o.code = f'k{serial[0]}'
            if rng.random() < 0.2:
                o.frag = Frag(f'f{serial[0]}')
            return o
        with tempfile.TemporaryDirectory(prefix='verif_savehist_') as tmp:
            rs = _rset(fmt, pkg)
            main = os.path.join(tmp, f'm.{ext}')
            res = rs.create_resource(URI(main), use_uuid=(mode == 'uuid'))
            for _ in range(rng.choice([1, 1, 2, 3])):
                res.append(new())
            hist, kept, failed_before = [], [], [False]

            def live():
                return [o for r in res.contents for o in [r] + list(r.eAllContents())]

            def forget(gone, objs):
                for o in objs:
                    if o.fav in gone:
                        o.fav = None
                    for g in gone:
                        if g in o.featured:
                            o.featured.remove(g)

            def edit():
                k = rng.choice(['add', 'front', 'front', 'remove', 'remove', 'move', 'link', 'link', 'link', 'slot',
                                'root-add', 'root-remove', 'rename-id'])
                objs = live()
                p = rng.choice(objs)
                if k == 'add':
                    p.kids.append(new())
                elif k == 'front':
                    p.kids.insert(0, new())
                elif k == 'remove' and len(p.kids):
                    victim = rng.choice(list(p.kids))
                    gone = [victim] + list(victim.eAllContents())
                    p.kids.remove(victim)
                    forget(gone, [o for o in objs if o not in gone])
                elif k == 'move' and len(p.kids):
                    c = rng.choice(list(p.kids))
                    inside = [c] + list(c.eAllContents())
                    q = rng.choice([o for o in objs if o not in inside])
                    q.kids.insert(rng.randrange(0, len(q.kids) + 1), c)
                elif k == 'link':
                    t = rng.choice(objs)
                    if rng.random() < 0.5:
                        p.fav = t
                    elif t not in p.featured:
                        p.featured.append(t)
                elif k == 'slot' and p.slot is None:
                    p.slot = new()
                elif k == 'root-add':
                    res.append(new())
                elif k == 'root-remove' and len(res.contents) > 1:
                    victim = rng.choice(list(res.contents))
                    gone = [victim] + list(victim.eAllContents())
                    res.remove(victim)
                    forget(gone, [o for o in objs if o not in gone])
                elif k == 'rename-id' and with_ids:
                    serial[0] += 1
                    p.code = f'k{serial[0]}'
                else:
                    k += '(nothing)'
                hist.append(k)
            case = lambda: {'scenario': 'save-history', 'seed': ctx.seed, 'tier': ctx.tier, 'format': fmt,     # noqa
                            'history': [mode] + list(hist)}
            sig = lambda clause: {'property': prop, 'clause': clause, 'format': fmt,       # noqa
                                  'mode': 'uuid' if mode == 'uuid' else 'fragment', 'after_failed_save': failed_before[0]}

            def save_ok(trip):
                target = main if rng.random() < 0.5 else os.path.join(tmp, f'copy{trip}.{ext}')
                hist.append('save-same' if target == main else 'save-other')
                try:
                    res.save() if target == main else res.save(output=URI(target))
                except Exception as e:      # noqa
                    out.fail(sig('save-raised'), f'after {hist[-10:]} the save raised {type(e).__name__}: {e}', case())
                    return False
                st['saves_ok'] += 1
                kept.append((open(target, 'rb').read(), _history_dump(list(res.contents), with_ids), len(hist),
                             failed_before[0]))
                return True

            def save_failing():
                kind = rng.choice(['missing-directory', 'missing-directory', 'output-is-a-directory', 'to_string-raises'])
                hist.append('failing-save:' + kind)
                objs = live()
                victim = None
                try:
                    if kind == 'missing-directory':
                        res.save(output=URI(os.path.join(tmp, 'no', 'such', 'dir', f'x.{ext}')))
                    elif kind == 'output-is-a-directory':
                        res.save(output=URI(tmp))
                    else:
                        # the value that cannot be written sits on a late object: the document is half built
                        victim = objs[-1] if rng.random() < 0.6 else rng.choice(objs)
                        old = victim.frag
                        victim.frag = Frag('boom', boom=True)
                        try:
                            res.save()
                        finally:
                            victim.frag = old
                except Exception:       # noqa
                    st['saves_failed'] += 1
                    st['failing_save_kinds'][kind] = st['failing_save_kinds'].get(kind, 0) + 1
                    failed_before[0] = True
                else:
                    hist[-1] += '(did not raise)'
            for _ in range(rng.randrange(3, 9)):
                edit()
            good = True
            for trip in range(rng.choice([2, 3, 3, 4])):
                if rng.random() < 0.55:
                    save_failing()
                else:
                    good = save_ok(trip)
                if not good:
                    break
                for _ in range(rng.randrange(1, 5)):
                    edit()
            if good:
                good = save_ok(99)           # the save that counts
        st['histories'] += 1
        if not good:
            continue
        # the history is over: only now the documents are loaded, each in a fresh resource set
        with tempfile.TemporaryDirectory(prefix='verif_savehist_') as tmp2:
            for i, (data, want, upto, after_failed) in enumerate(kept):
                path = os.path.join(tmp2, f'doc{i}.{ext}')
                open(path, 'wb').write(data)
                try:
                    got = _history_dump(list(_rset(fmt, pkg).get_resource(URI(path)).contents), with_ids)
                except Exception as e:      # noqa
                    got = {'load-raised': f'{type(e).__name__}: {e}'}
                st['documents_loaded_and_compared'] += 1
                st['after_a_failed_save'] += 1 if after_failed else 0
                if got != want:
                    bad = [k for k in want['objs'] if got.get('objs', {}).get(k) != want['objs'][k]][:3]
                    out.fail({'property': prop, 'clause': 'document-of-a-save-history-differs', 'format': fmt,
                              'mode': 'uuid' if mode == 'uuid' else 'fragment', 'after_failed_save': after_failed},
                             f'[{mode}] after {hist[max(0, upto - 8):upto]} the document of that save loads into a different '
                             f'model: {[(k, want["objs"][k], got.get("objs", {}).get(k)) for k in bad] or got}',
                             {'scenario': 'save-history', 'seed': ctx.seed, 'tier': ctx.tier, 'format': fmt,
                              'history': [mode] + hist[:upto]})
                    break
    out.coverage[f'save_history_{fmt}'] = st


# ---------------------------------------------------------------- (2) same-named classes in nested sub-packages
FEATURE_SHAPES = ['str', 'int', 'enum', 'code', 'str*', 'int*', 'enum*', 'ref', 'ref*', 'cont', 'cont*']


def _qualified(x):
    """package path of a classifier: root/sub/.../Name"""
    names = [x.name]
    p = x.eSuperPackage if hasattr(x, 'eSubpackages') else x.ePackage
    while p is not None:
        names.append(p.name)
        p = p.eSuperPackage
    return '/'.join(reversed(names))


def _subpackage_metamodel(rng, serial):
    """root package: Box (contains everything), Leaf (a target); 2-3 sub-packages (possibly nested) each with its own
    classes 'Item' and 'Part', its own enumeration 'Kind' and data type 'Code'; the features 'status' and 'extra' of the
    Items (and 'status' of the Parts) have a shape drawn per package"""
    from pyecore.ecore import EClass, EAttribute, EReference, EString, EInt, EPackage, EEnum, EDataType
    nsub = rng.choice([2, 3, 3])
    # namespace prefixes: distinct, all equal, equal in pairs, or looking like the names the XMI writer gives to a
    # prefix that is already taken (p_1, p_2), in any order
    scheme = rng.choice(['distinct', 'all-equal', 'all-equal', 'pairs', 'rename-like', 'rename-like'])
    if scheme == 'distinct':
        prefixes = ['box'] + [f's{i}' for i in range(nsub)]
    elif scheme == 'all-equal':
        prefixes = ['p'] * (nsub + 1)
    elif scheme == 'pairs':
        prefixes = (['p', 'p', 'q', 'q'])[:nsub + 1]
        rng.shuffle(prefixes)
    else:
        prefixes = rng.choice([['p', 'p_2', 'p', 'p'], ['p', 'p_1', 'p', 'p_2'], ['p', 'p', 'p_1', 'p'], ['p_1', 'p', 'p', 'p_2'],
                               ['p', 'p_2', 'p', 'p_3']])[:nsub + 1]
        if rng.random() < 0.5:
            rng.shuffle(prefixes)
    root = EPackage('box', nsURI=f'http://verif/c09/subpackages/{serial}', nsPrefix=prefixes[0])
    Box, Leaf, Thing = EClass('Box'), EClass('Leaf'), EClass('Thing', abstract=True)
    Leaf.eStructuralFeatures.append(EAttribute('name', EString))
    Box.eStructuralFeatures.append(EReference('leaves', Leaf, upper=-1, containment=True))
    Box.eStructuralFeatures.append(EReference('things', Thing, upper=-1, containment=True))      # polymorphic slot
    root.eClassifiers.extend([Box, Leaf, Thing])
    subs = []
    parent = root
    lits = [['ACTIVE', 'RETIRED'], ['RETIRED', 'LOST', 'ACTIVE'], ['NEW', 'ACTIVE']]
    for i in range(nsub):
        sub = EPackage(f's{i}', nsURI=f'{root.nsURI}/s{i}', nsPrefix=prefixes[i + 1])
        (parent if rng.random() < 0.4 else root).eSubpackages.append(sub)
        parent = sub
        Kind = EEnum('Kind', literals=list(lits[i]))
        if rng.random() < 0.5:
            # display texts (EEnumLiteral.literal) that differ from the names: documents name a literal by its NAME
            for li, lit_ in enumerate(Kind.eLiterals):
                if rng.random() < 0.6:
                    lit_.literal = rng.choice(['in-progress', 'In Progress', '+', lit_.name.lower(), lits[i][(li + 1) % len(lits[i])]])
        # same name, different conversions: upper-cased text / an int written as text
        Code = (EDataType('Code', str, from_string=lambda s: s.upper(), to_string=lambda v: v.lower()) if i % 2 == 0
                else EDataType('Code', int, from_string=lambda s: int(s), to_string=lambda v: str(v)))
        renamed = None
        if rng.random() < 0.5:
            # a literal renamed in place after it was added to its enumeration
            lit = rng.choice(list(Kind.eLiterals))
            renamed = [lit.name, rng.choice(['GONE', 'RETIRED', 'Active', lit.name + '2'])]
            if renamed[1] not in [x.name for x in Kind.eLiterals]:
                lit.name = renamed[1]
            else:
                renamed = None
        Item, Part = EClass('Item', superclass=(Thing,)), EClass('Part', superclass=(Thing,))
        Part.eStructuralFeatures.append(EAttribute('name', EString))
        Item.eStructuralFeatures.append(EAttribute('name', EString))
        sub.eClassifiers.extend([Kind, Code, Item, Part])
        shapes = {}
        for owner, fname in ((Item, 'status'), (Item, 'extra'), (Part, 'status')):
            shape = rng.choice(FEATURE_SHAPES[:8] if owner is Part else FEATURE_SHAPES)
            shapes[(owner.name, fname)] = shape
            many = shape.endswith('*')
            base = shape.rstrip('*')
            if base in ('str', 'int', 'enum', 'code'):
                t = {'str': EString, 'int': EInt, 'enum': Kind, 'code': Code}[base]
                owner.eStructuralFeatures.append(EAttribute(fname, t, upper=-1 if many else 1, unique=False))
            elif base == 'ref':
                owner.eStructuralFeatures.append(EReference(fname, Leaf, upper=-1 if many else 1))
            else:
                owner.eStructuralFeatures.append(EReference(fname, Part, upper=-1 if many else 1, containment=True))
        Box.eStructuralFeatures.append(EReference(f'items{i}', Item, upper=-1, containment=True))
        Box.eStructuralFeatures.append(EReference(f'parts{i}', Part, upper=-1, containment=True))
        subs.append({'pkg': sub, 'Item': Item, 'Part': Part, 'Kind': Kind, 'Code': Code, 'odd': i % 2, 'shapes': shapes, 'i': i,
                     'renamed': renamed})
    return root, Box, Leaf, subs, [scheme] + prefixes


def _exact(v):
    """value AND Python type of an attribute value; a literal with the enumeration it belongs to"""
    from pyecore.ecore import EEnumLiteral
    if isinstance(v, EEnumLiteral):
        return ['literal', _qualified(v.eContainer()) if v.eContainer() is not None else None, v.name]
    return [type(v).__name__, v]


def _subpackage_dump(box):
    def one(o):
        d = {'class': _qualified(o.eClass)}
        for f in o.eClass.eAllStructuralFeatures():
            v = o.eGet(f)
            if f.is_attribute:
                d[f.name] = [_exact(x) for x in v] if f.many else _exact(v)
            elif f.containment:
                d[f.name] = [one(x) for x in v] if f.many else (one(v) if v is not None else None)
            else:
                d[f.name] = [x.name for x in v] if f.many else (v.name if v is not None else None)
        return d
    return one(box)


def subpackage_scenarios(ctx, out, fmt='json', prop='C09', scale=1.0):
    ResourceSet, URI, JsonResource = _classes(fmt)
    rng = common.rng_for(ctx.seed, f'{prop}:subpackages')
    n = max(1, int((100 if ctx.tier != 'thorough' else 1500) * scale))
    ext = 'json' if fmt == 'json' else 'xmi'
    st = {'documents': 0, 'shape_pairs_differing': 0, 'objects': 0, 'shapes': {}, 'nested_subpackages': 0, 'prefix_schemes': {},
          'placements': {}, 'literals_renamed_in_place': 0, 'literals_added_after_instances': 0}
    for it in range(n):
        root, Box, Leaf, subs, prefixes = _subpackage_metamodel(rng, f'{fmt}{it}')
        st['prefix_schemes'][prefixes[0]] = st['prefix_schemes'].get(prefixes[0], 0) + 1
        if any(s['pkg'].eSuperPackage is not root for s in subs):
            st['nested_subpackages'] += 1
        if len({s['shapes'][('Item', 'status')] for s in subs}) > 1:
            st['shape_pairs_differing'] += 1
        box = Box()
        leaves = [Leaf(name=f'leaf{j}') for j in range(3)]
        box.leaves.extend(leaves)
        hist = [prefixes] + [[_qualified(s['pkg']), s['renamed'], sorted([f'{k[0]}.{k[1]}', v] for k, v in s['shapes'].items())]
                             for s in subs]
        st['literals_renamed_in_place'] += sum(1 for s in subs if s['renamed'])
        serial = [0]

        def value(s, base):
            if base == 'str':
                return rng.choice(['RETIRED', 'ACTIVE', 'sold in 2019', '7', ''])
            if base == 'int':
                return rng.choice([0, 7, -3, 12])
            if base == 'enum':
                return rng.choice(list(s['Kind'].eLiterals))
            return rng.choice([7, 12, 0]) if s['odd'] else rng.choice(['RETIRED', 'ABC', '7'])

        def fill(s, o, cname):
            serial[0] += 1
            o.name = f'{cname.lower()}{s["i"]}_{serial[0]}'
            for (owner, fname), shape in sorted(s['shapes'].items()):
                if owner != cname or rng.random() < 0.15:
                    continue
                many, base = shape.endswith('*'), shape.rstrip('*')
                st['shapes'][shape] = st['shapes'].get(shape, 0) + 1
                cnt = rng.choice([1, 2, 3]) if many else 1
                if base in ('str', 'int', 'enum', 'code'):
                    vals = [value(s, base) for _ in range(cnt)]
                elif base == 'ref':
                    vals = [rng.choice(leaves) for _ in range(cnt)]
                    vals = [x for j, x in enumerate(vals) if x not in vals[:j]]
                else:
                    vals = [fill(s, s['Part'](), 'Part') for _ in range(cnt)]
                if many:
                    o.eGet(fname).extend(vals)
                else:
                    o.eSet(fname, vals[0])
            st['objects'] += 1
            return o
        # instances of every package, the order between the packages drawn (the class seen first differs)
        plan = [(s, kind) for s in subs for kind in ('Item', 'Item', 'Part') if rng.random() < 0.85]
        rng.shuffle(plan)
        extra_roots, placed = [], []
        for s, kind in plan:
            o = fill(s, s[kind](), kind)
            where = rng.choice(['typed', 'typed', 'things', 'things', 'root'])
            st['placements'][where] = st['placements'].get(where, 0) + 1
            placed.append(f'{kind}@{_qualified(s["pkg"])}>{where}')
            if where == 'typed':
                box.eGet(f'{"items" if kind == "Item" else "parts"}{s["i"]}').append(o)
            elif where == 'things':
                box.things.append(o)
            else:
                extra_roots.append(o)
        hist.append(placed)
        # the enumerations keep changing while instances exist: a literal is added (and used), another renamed in place
        from pyecore.ecore import EEnumLiteral
        late = []
        for s in subs:
            users = [(o, f) for o in [box] + list(box.eAllContents()) + extra_roots
                     for f in o.eClass.eAllStructuralFeatures() if f.is_attribute and f.eType is s['Kind']]
            r = rng.random()
            if r < 0.35:
                lit = EEnumLiteral(name='LATE')
                s['Kind'].eLiterals.append(lit)
                st['literals_added_after_instances'] += 1
                late.append(['added', s['i']])
                for o, f in users:
                    if rng.random() < 0.6:
                        o.eGet(f).append(lit) if f.many else o.eSet(f, lit)
            elif r < 0.6:
                lit = rng.choice(list(s['Kind'].eLiterals))
                lit.name = lit.name + '_r'
                st['literals_renamed_in_place'] += 1
                late.append(['renamed', s['i'], lit.name])
        hist.append(late)
        case = {'scenario': 'subpackages', 'seed': ctx.seed, 'tier': ctx.tier, 'format': fmt, 'history': hist}
        sig = {'property': prop, 'clause': 'same-named-classes-in-subpackages', 'format': fmt}
        want = [_subpackage_dump(r) for r in [box] + extra_roots]
        st['documents'] += 1
        with tempfile.TemporaryDirectory(prefix='verif_subpkg_') as tmp:
            path = os.path.join(tmp, f'box.{ext}')
            try:
                res = _rset(fmt, root).create_resource(URI(path))
                for r in [box] + extra_roots:
                    res.append(r)
                res.save()
            except Exception as e:      # noqa
                out.fail(dict(sig, stage='save'), f'save raised {type(e).__name__}: {e} on {hist}', case)
                continue
            try:
                got = [_subpackage_dump(r) for r in _rset(fmt, root).get_resource(URI(path)).contents]
            except Exception as e:      # noqa
                out.fail(dict(sig, stage='load'), f'load / reading the loaded model raised {type(e).__name__}: {e} on {hist}', case)
                continue
        if got != want:
            pair = next(((a, b) for a, b in zip(want, got) if a != b), (None, None))
            what = _first_diff(*pair) if pair[0] is not None else f'{len(want)} roots saved, {len(got)} loaded'
            out.fail(dict(sig, stage='compare'), f'the loaded model differs: {what} on {hist}', case)
    out.coverage[f'subpackages_{fmt}'] = st


def _first_diff(a, b, where='box'):
    if isinstance(a, dict) and isinstance(b, dict) and 'class' in a and 'class' in b:
        for k in a:
            if a[k] != b.get(k):
                return _first_diff(a[k], b.get(k), f'{where}.{k}')
    if isinstance(a, list) and isinstance(b, list) and len(a) == len(b):
        for i, (x, y) in enumerate(zip(a, b)):
            if x != y and isinstance(x, dict):
                return _first_diff(x, y, f'{where}[{i}]')
    return f'{where}: saved {a!r} loaded {b!r}'


# ---------------------------------------------------------------- (3) two files referring to each other
def _two_file_metamodel():
    from pyecore.ecore import EClass, EAttribute, EReference, EString, EPackage
    pkg = EPackage('org', nsURI='http://verif/c09/twofiles', nsPrefix='org')
    Group, Team, Person = EClass('Group'), EClass('Team'), EClass('Person')
    for c in (Group, Team, Person):
        c.eStructuralFeatures.append(EAttribute('name', EString))
        c.eStructuralFeatures.append(EAttribute('code', EString, iD=True))
    Group.eStructuralFeatures.append(EReference('teams', Team, upper=-1, containment=True))
    Group.eStructuralFeatures.append(EReference('persons', Person, upper=-1, containment=True))
    # unidirectional
    Team.eStructuralFeatures.append(EReference('fav', Person))
    Team.eStructuralFeatures.append(EReference('watch', Person, upper=-1))
    Person.eStructuralFeatures.append(EReference('home', Team))
    # 1-1, 1-n, n-n (many ends are unique collections)
    captain = EReference('captain', Person)
    captain_of = EReference('captainOf', Team, eOpposite=captain)
    lead = EReference('lead', Person)
    leads = EReference('leads', Team, upper=-1, eOpposite=lead)
    members = EReference('members', Person, upper=-1)
    teams = EReference('teams', Team, upper=-1, eOpposite=members)
    Team.eStructuralFeatures.extend([captain, lead, members])
    Person.eStructuralFeatures.extend([captain_of, leads, teams])
    pkg.eClassifiers.extend([Group, Team, Person])
    return pkg, Group, Team, Person


UNIDIRECTIONAL = {'fav', 'watch', 'home'}


def _resolved(v):
    """the element a value stands for: a proxy and its target are the same element"""
    f = getattr(type(v), 'force_resolve', None)
    return v.force_resolve() if f is not None and hasattr(v, '_proxy_path') else v


def _two_file_snapshot(groups, ordered_unidirectional=True):
    """per object (by name) and reference: the names of the targets; problems: an element twice under a unique feature,
    an opposite that does not point back.  Every proxy is followed.  No `in` on the collections (C14's known findings
    about stale hashes): everything goes through lists of resolved targets compared by identity."""
    snap, problems = {}, []
    objs = [o for g in groups for o in list(g.teams) + list(g.persons)]
    values = {}
    for o in objs:
        for f in o.eClass.eAllReferences():
            if f.containment:
                continue
            raw = list(o.eGet(f)) if f.many else ([] if o.eGet(f) is None else [o.eGet(f)])
            targets = [_resolved(v) for v in raw]
            values[(id(o), f.name)] = targets
            names = [t.name for t in targets]
            if f.many and (f.name not in UNIDIRECTIONAL or not ordered_unidirectional):
                # the order of a bidirectional end across files is C14's (known findings F-C14-order-*); XMI also loses
                # the relative order of local and cross-resource targets of one collection (F-C14-order-mixed-xmi)
                names = sorted(names)
            snap[f'{o.name}.{f.name}'] = names
            if f.many and len({id(t) for t in targets}) != len(targets):
                kinds = [f'{type(v).__name__}({t.name})' for v, t in zip(raw, targets)]
                problems.append(('element-twice', f'{o.name}.{f.name} holds an element twice: {kinds}'))
    for o in objs:
        for f in o.eClass.eAllReferences():
            if f.containment or f.eOpposite is None:
                continue
            for t in values[(id(o), f.name)]:
                back = values.get((id(t), f.eOpposite.name))
                if back is None or not any(b is o for b in back):
                    problems.append(('asymmetric', f'{o.name}.{f.name} holds {t.name} whose {f.eOpposite.name} does not hold it back'))
    return snap, problems


def two_file_scenarios(ctx, out, fmt='json', prop='C09', scale=1.0):
    ResourceSet, URI, JsonResource = _classes(fmt)
    rng = common.rng_for(ctx.seed, f'{prop}:two-files')
    n = max(1, int((120 if ctx.tier != 'thorough' else 2500) * scale))
    ext = 'json' if fmt == 'json' else 'xmi'
    pkg, Group, Team, Person = _two_file_metamodel()
    st = {'cases': 0, 'mode_mixes': {}, 'load_orders': {}, 'two_directories': 0, 'cross_file_links': 0, 'links': {}}
    for it in range(n):
        modes = [rng.choice(['fragment', 'ids', 'uuid']), rng.choice(['fragment', 'ids', 'uuid'])]
        two_dirs = rng.random() < 0.4
        load_order = rng.choice(['a-first', 'b-first'])
        save_order = rng.choice(['a-first', 'b-first'])
        st['mode_mixes']['+'.join(modes)] = st['mode_mixes'].get('+'.join(modes), 0) + 1
        st['load_orders'][load_order] = st['load_orders'].get(load_order, 0) + 1
        st['two_directories'] += 1 if two_dirs else 0
        hist = [modes, 'two-dirs' if two_dirs else 'one-dir', 'save ' + save_order, 'load ' + load_order]
        ga, gb = Group(name='ga'), Group(name='gb')
        teams, persons, where = [], [], {}
        for j in range(rng.choice([2, 3, 4])):
            t = Team(name=f't{j}')
            g = ga if rng.random() < 0.8 else gb          # mostly: teams in a, persons in b
            g.teams.append(t)
            teams.append(t)
            where[t.name] = g.name
        for j in range(rng.choice([2, 3, 4])):
            p = Person(name=f'p{j}')
            g = gb if rng.random() < 0.8 else ga
            g.persons.append(p)
            persons.append(p)
            where[p.name] = g.name
        for g, mode in ((ga, modes[0]), (gb, modes[1])):
            if mode == 'ids':
                for o in [g] + list(g.teams) + list(g.persons):
                    o.code = f'k_{o.name}'
        ops = []

        def link(kind, x, y):
            ops.append([kind, x.name, y.name])
            st['links'][kind] = st['links'].get(kind, 0) + 1
            if where[x.name] != where[y.name]:
                st['cross_file_links'] += 1
        free_p = list(persons)
        rng.shuffle(free_p)
        for t in teams:
            if rng.random() < 0.6:
                t.fav = rng.choice(persons)
                link('fav', t, t.fav)
            for p in rng.sample(persons, rng.randrange(0, len(persons) + 1)):
                if rng.random() < 0.5:
                    t.watch.append(p)
                    link('watch', t, p)
            if free_p and rng.random() < 0.6:
                t.captain = free_p.pop()
                link('captain', t, t.captain)
            if rng.random() < 0.7:
                t.lead = rng.choice(persons)
                link('lead', t, t.lead)
            for p in rng.sample(persons, rng.randrange(0, len(persons) + 1)):
                if rng.random() < 0.5:
                    t.members.append(p)
                    link('members', t, p)
                else:
                    p.teams.append(t)               # the same pair, entered from the other end
                    link('teams', p, t)
        for p in persons:
            if rng.random() < 0.5:
                p.home = rng.choice(teams)
                link('home', p, p.home)
        hist.append(ops)
        st['cases'] += 1
        case = {'scenario': 'two-files', 'seed': ctx.seed, 'tier': ctx.tier, 'format': fmt, 'history': hist}
        sig = {'property': prop, 'clause': 'two-files', 'format': fmt}
        with tempfile.TemporaryDirectory(prefix='verif_twofiles_') as tmp:
            da, db = (os.path.join(tmp, 'x'), os.path.join(tmp, 'y', 'z')) if two_dirs else (tmp, tmp)
            os.makedirs(da, exist_ok=True)
            os.makedirs(db, exist_ok=True)
            pa, pb = os.path.join(da, f'a.{ext}'), os.path.join(db, f'b.{ext}')
            try:
                rs = _rset(fmt, pkg)
                ra = rs.create_resource(URI(pa), use_uuid=(modes[0] == 'uuid'))
                rb = rs.create_resource(URI(pb), use_uuid=(modes[1] == 'uuid'))
                ra.append(ga)
                rb.append(gb)
                want, problems = _two_file_snapshot([ga, gb], fmt == 'json')
                if problems:
                    continue            # (not a state: nothing to say about its round trip)
                for r in ((ra, rb) if save_order == 'a-first' else (rb, ra)):
                    r.save()
            except Exception as e:      # noqa
                out.fail(dict(sig, stage='save'), f'{modes} save raised {type(e).__name__}: {e}', case)
                continue
            try:
                rs2 = _rset(fmt, pkg)
                loaded = {}
                for key in (('a', 'b') if load_order == 'a-first' else ('b', 'a')):
                    loaded[key] = rs2.get_resource(URI(pa if key == 'a' else pb))
                got, problems = _two_file_snapshot([loaded['a'].contents[0], loaded['b'].contents[0]], fmt == 'json')
            except Exception as e:      # noqa
                out.fail(dict(sig, stage='load'), f'{modes} {load_order}: loading / following the references raised '
                         f'{type(e).__name__}: {e}', case)
                continue
        if problems:
            out.fail(dict(sig, stage=problems[0][0]), f'{modes} {load_order}: {problems[0][1]}', case)
        elif got != want:
            bad = [k for k in want if got.get(k) != want[k]][:3]
            out.fail(dict(sig, stage='compare'), f'{modes} {load_order}: the loaded model differs: '
                     f'{[(k, want[k], got.get(k)) for k in bad]}', case)
    out.coverage[f'two_files_{fmt}'] = st


# ---------------------------------------------------------------- (4) every built-in data type, wrapper types included
BUILTIN_TYPES = {
    'bool': ['EBoolean', 'EBooleanObject'],
    'int': ['EInt', 'EInteger', 'EIntegerObject', 'ELong', 'ELongObject', 'EShort', 'EShortObject', 'EBigInteger'],
    'float': ['EDouble', 'EDoubleObject', 'EFloat', 'EFloatObject'],
    'str': ['EString', 'EChar', 'ECharacterObject'],
    'decimal': ['EBigDecimal'],
    'date': ['EDate'],
}


def datatype_scenarios(ctx, out, fmt='json', prop='C09', scale=1.0):
    """one class with a single-valued and a many-valued attribute of every built-in data type (the Java wrapper types
    EBooleanObject, EIntegerObject, ... included); random values, None, the defaults; both values of
    SERIALIZE_DEFAULT_VALUES; compared exactly (value AND Python type)"""
    import datetime
    import decimal
    from pyecore import ecore as E
    ResourceSet, URI, JsonResource = _classes(fmt)
    from pyecore.resources.xmi import XMIOptions
    from pyecore.resources.json import JsonOptions
    rng = common.rng_for(ctx.seed, f'{prop}:datatypes')
    n = max(1, int((40 if ctx.tier != 'thorough' else 1500) * scale))
    ext = 'json' if fmt == 'json' else 'xmi'
    pkg = E.EPackage('dt', nsURI='http://verif/c09/datatypes', nsPrefix='dt')
    A = E.EClass('A')
    pkg.eClassifiers.append(A)
    kinds = {}
    for kind, names in BUILTIN_TYPES.items():
        for name in names:
            kinds[name] = kind
            A.eStructuralFeatures.append(E.EAttribute('s_' + name, getattr(E, name)))
            A.eStructuralFeatures.append(E.EAttribute('m_' + name, getattr(E, name), upper=-1, unique=False))
    A.eStructuralFeatures.append(E.EReference('kids', A, upper=-1, containment=True))
    pools = {'bool': [True, False], 'int': [0, 1, -1, 7, 2 ** 40, -12], 'float': [0.0, 1.5, -2.25, 1e300, 0.1],
             'str': ['', 'a', 'true', '0', 'x y'],
             'decimal': [decimal.Decimal('1.10'), decimal.Decimal('0'), decimal.Decimal('-3.5')],
             'date': [datetime.datetime(2020, 1, 2, 3, 4, 5), datetime.datetime(1999, 12, 31, 23, 59, 59, 999999)]}
    st = {'documents': 0, 'values': 0, 'none_values': 0, 'types': len(kinds)}

    def dump(o):
        d = {}
        for f in o.eClass.eAllAttributes():
            v = o.eGet(f)
            d[f.name] = [[type(x).__name__, x] for x in v] if f.many else [type(v).__name__, v]
        d['kids'] = [dump(k) for k in o.kids]
        return d
    for it in range(n):
        sd = rng.random() < 0.4
        hist = [['serialize_default', sd]]

        def fill(o):
            for name, kind in kinds.items():
                if kind == 'str' and name != 'EString':
                    pool = ['a', 'Z', '0']
                else:
                    pool = pools[kind]
                if rng.random() < 0.8:
                    v = None if rng.random() < 0.12 else rng.choice(pool)
                    o.eSet('s_' + name, v)
                    hist.append(['s_' + name, repr(v)])
                    st['values'] += 1
                    st['none_values'] += 1 if v is None else 0
                if rng.random() < 0.5:
                    vs = [None if rng.random() < 0.1 else rng.choice(pool) for _ in range(rng.randrange(0, 4))]
                    o.eGet('m_' + name).extend(vs)
                    hist.append(['m_' + name, repr(vs)])
                    st['values'] += len(vs)
            return o
        a = fill(A())
        if rng.random() < 0.5:
            a.kids.append(fill(A()))
        want = dump(a)
        case = {'scenario': 'datatypes', 'seed': ctx.seed, 'tier': ctx.tier, 'format': fmt, 'history': hist}
        sig = {'property': prop, 'clause': 'built-in-data-types', 'format': fmt}
        st['documents'] += 1
        with tempfile.TemporaryDirectory(prefix='verif_datatypes_') as tmp:
            path = os.path.join(tmp, f'm.{ext}')
            try:
                res = _rset(fmt, pkg).create_resource(URI(path))
                res.append(a)
                opt = (JsonOptions if fmt == 'json' else XMIOptions).SERIALIZE_DEFAULT_VALUES
                res.save(options={opt: True} if sd else None)
                got = dump(_rset(fmt, pkg).get_resource(URI(path)).contents[0])
            except Exception as e:      # noqa
                out.fail(dict(sig, stage='raised'), f'save / load raised {type(e).__name__}: {e}', case)
                continue
        if got != want:
            bad = [k for k in want if k != 'kids' and got.get(k) != want[k]][:3] or ['kids']
            out.fail(dict(sig, stage='compare', types=sorted({k[2:] for k in bad})),
                     f'serialize_default={sd}: the loaded model differs: {[(k, want[k], got.get(k)) for k in bad if k != "kids"]}', case)
    out.coverage[f'datatypes_{fmt}'] = st


# ---------------------------------------------------------------- (5) feature flags that do not change what is stored
FLAG_SETS = [[], ['volatile'], ['volatile'], ['unsettable'], ['nochange'], ['volatile', 'unsettable'], ['volatile', 'nochange'],
             ['unsettable', 'nochange'], ['volatile', 'unsettable', 'nochange'],
             ['transient'], ['volatile', 'transient'], ['derived'], ['volatile', 'derived'], ['transient', 'derived']]
FLAG_SHAPES = ['a1', 'a1i', 'an', 'r1', 'rn', 'c1', 'cn']


def feature_flag_scenarios(ctx, out, fmt='json', prop='C09', scale=1.0):
    """metamodels whose attributes / references / containments (single and many) carry the flags volatile,
    unsettable, changeable=False, transient, derived in many combinations.  pyecore stores a value for every one of
    them; save leaves out exactly the transient and the derived ones (a derived many-valued feature cannot be filled
    and stays empty).  After save + load in a fresh ResourceSet the model must be the saved one with exactly those
    features unset -- everything else (values, targets by name, whole containment subtrees) must be there."""
    from pyecore import ecore as E
    ResourceSet, URI, JsonResource = _classes(fmt)
    from pyecore.resources.xmi import XMIOptions
    from pyecore.resources.json import JsonOptions
    rng = common.rng_for(ctx.seed, f'{prop}:feature-flags')
    n = max(1, int((60 if ctx.tier != 'thorough' else 1500) * scale))
    ext = 'json' if fmt == 'json' else 'xmi'
    st = {'documents': 0, 'flag_sets': {}, 'shapes': {}, 'values_expected_back': 0, 'values_legitimately_dropped': 0}
    for it in range(n):
        pkg = E.EPackage('ff', nsURI=f'http://verif/c09/flags/{fmt}{it}', nsPrefix='ff')
        A = E.EClass('A')
        pkg.eClassifiers.append(A)
        A.eStructuralFeatures.append(E.EAttribute('name', E.EString))
        A.eStructuralFeatures.append(E.EReference('kids', A, upper=-1, containment=True))
        feats = []
        for j in range(rng.randrange(5, 11)):
            shape, flags = rng.choice(FLAG_SHAPES), list(rng.choice(FLAG_SETS))
            if 'derived' in flags and shape in ('an', 'rn', 'cn'):
                flags = [f for f in flags if f != 'derived'] or ['volatile']   # a derived collection cannot be filled
            kw = {f: True for f in flags if f != 'nochange'}
            if 'nochange' in flags:
                kw['changeable'] = False
            fname = f'{shape}_{j}'
            if shape[0] == 'a':
                t = E.EInt if shape == 'a1i' else (E.EInt if shape == 'an' else E.EString)
                A.eStructuralFeatures.append(E.EAttribute(fname, t, upper=-1 if shape == 'an' else 1, unique=False, **kw))
            else:
                A.eStructuralFeatures.append(E.EReference(fname, A, upper=-1 if shape[1] == 'n' else 1,
                                                          containment=shape[0] == 'c', **kw))
            feats.append([fname, shape, flags])
            key = '+'.join(flags) or 'none'
            st['flag_sets'][key] = st['flag_sets'].get(key, 0) + 1
            st['shapes'][shape] = st['shapes'].get(shape, 0) + 1
        dropped = {f[0] for f in feats if 'transient' in f[2] or 'derived' in f[2]}
        sd = rng.random() < 0.3
        hist = [['serialize_default', sd], feats]
        root = A(name='root')
        plain = [A(name=f'k{j}') for j in range(rng.randrange(1, 4))]
        root.kids.extend(plain)
        serial = [0]
        ops = []
        for o in [root] + plain:
            for fname, shape, flags in feats:
                if rng.random() < 0.3:
                    continue
                if shape == 'a1':
                    v = rng.choice(['x', '', 'volatile', 'y z'])
                    o.eSet(fname, v)
                elif shape == 'a1i':
                    v = rng.choice([0, 5, -1])
                    o.eSet(fname, v)
                elif shape == 'an':
                    v = [rng.choice([0, 1, 7]) for _ in range(rng.randrange(0, 3))]
                    o.eGet(fname).extend(v)
                elif shape == 'r1':
                    v = rng.choice(plain + [root]).name
                    o.eSet(fname, next(x for x in [root] + plain if x.name == v))
                elif shape == 'rn':
                    v = sorted({rng.choice(plain + [root]).name for _ in range(rng.randrange(0, 3))})
                    o.eGet(fname).extend([x for x in [root] + plain if x.name in v])
                else:
                    # children under a flagged containment: leaves of their own (never a target of a reference)
                    cnt = 1 if shape == 'c1' else rng.randrange(0, 3)
                    kids = []
                    for _ in range(cnt):
                        serial[0] += 1
                        kids.append(A(name=f'sub{serial[0]}'))
                    v = [k.name for k in kids]
                    if shape == 'c1':
                        o.eSet(fname, kids[0])
                    else:
                        o.eGet(fname).extend(kids)
                ops.append([o.name, fname, v])
                if fname in dropped:
                    st['values_legitimately_dropped'] += 1
                else:
                    st['values_expected_back'] += 1
        hist.append(ops)

        def dump(o, expect):
            """expect=True: the saved object as it must come back (transient / derived features unset)"""
            d = {'name': o.name, 'kids': [dump(k, expect) for k in o.kids]}
            for fname, shape, flags in feats:
                f = o.eClass.findEStructuralFeature(fname)
                if expect and fname in dropped:
                    d[fname] = [] if f.many else (f.get_default_value() if f.is_attribute else None)
                    continue
                v = o.eGet(f)
                if shape[0] == 'a':
                    d[fname] = [[type(x).__name__, x] for x in v] if f.many else [type(v).__name__, v]
                    if not f.many:
                        d[fname] = d[fname] if v is not None else None
                elif shape[0] == 'r':
                    d[fname] = [x.name for x in v] if f.many else (v.name if v is not None else None)
                else:
                    d[fname] = [dump(x, expect) for x in v] if f.many else (dump(v, expect) if v is not None else None)
            return d

        def norm(d):
            # an unset single attribute reads as its default: ['int', 0] and 0 are the same observation
            return {k: (v[1] if isinstance(v, list) and len(v) == 2 and isinstance(v[0], str) and k.startswith('a1') else
                        ([norm(x) if isinstance(x, dict) else x for x in v] if isinstance(v, list) else
                         (norm(v) if isinstance(v, dict) else v))) for k, v in d.items()}
        want = norm(dump(root, True))
        case = {'scenario': 'feature-flags', 'seed': ctx.seed, 'tier': ctx.tier, 'format': fmt, 'history': hist}
        sig = {'property': prop, 'clause': 'flagged-feature-lost', 'format': fmt}
        st['documents'] += 1
        with tempfile.TemporaryDirectory(prefix='verif_flags_') as tmp:
            path = os.path.join(tmp, f'm.{ext}')
            try:
                res = _rset(fmt, pkg).create_resource(URI(path))
                res.append(root)
                opt = (JsonOptions if fmt == 'json' else XMIOptions).SERIALIZE_DEFAULT_VALUES
                res.save(options={opt: True} if sd else None)
                got = norm(dump(_rset(fmt, pkg).get_resource(URI(path)).contents[0], False))
            except Exception as e:      # noqa
                out.fail(dict(sig, stage='raised'), f'save / load raised {type(e).__name__}: {e} on {feats}', case)
                continue
        if got != want:
            def first(a, b, where):
                for k in a:
                    if a[k] != b.get(k):
                        if k == 'kids' or (isinstance(a[k], list) and a[k] and isinstance(a[k][0], dict)):
                            bl = b.get(k) or []
                            for i, x in enumerate(a[k]):
                                if i >= len(bl) or not isinstance(bl[i], dict):
                                    return f'{where}.{k}: saved {[y["name"] for y in a[k]]} loaded {[y.get("name") if isinstance(y, dict) else y for y in bl]}'
                                if x != bl[i]:
                                    return first(x, bl[i], f'{where}.{k}[{i}]')
                        if isinstance(a[k], dict) and isinstance(b.get(k), dict):
                            return first(a[k], b[k], f'{where}.{k}')
                        fl = next((f[2] for f in feats if f[0] == k), None)
                        return f'{where}.{k} (flags {fl}): saved {a[k]!r} loaded {b.get(k)!r}'
                return f'{where}: differs'
            out.fail(dict(sig, stage='compare'), f'serialize_default={sd}: {first(want, got, "root")}', case)
    out.coverage[f'feature_flags_{fmt}'] = st
