(* Executable models of the conversions named by the tags of the generated
   data type tables (coq/Gen/DataTypes.v):
     TS_str            str(v)             (str: itself; bool: True/False; int: decimal; Decimal: to-scientific-string)
     TS_str_lower      str(v).lower()
     TS_strftime fmt   v.strftime(fmt)    (Model/DateTime.v)
     FS_id / FS_int / FS_float / FS_Decimal / FS_parse_date / FS_in_True_true[_or_is_True]
   plus EEnum literal lookup, and the token codec of the extracted driver.
   float repr / parse are NOT modelled: they are parameters of the section
   (instantiated by nothing in the extracted driver; the C17 theorems assume
   CPython's documented float(repr(f)) == f).  No proofs here. *)
From Coq Require Import ZArith List Bool String Decimal DecimalZ.
From PyecoreV Require Import Model.Text Model.DateTime Model.DataTypeDecl Gen.DataTypes.
Import ListNotations.
Open Scope Z_scope.

(* ---------- decimal.Decimal, finite values: (-1)^sign * coef * 10^exp ---------- *)
Record dec : Type := { dsign : bool; dcoef : Z; dexp : Z }.   (* 0 <= dcoef *)

Definition digits_of (c : Z) : text :=
  match Z.to_int c with Pos u => list_of_uint u | Neg u => list_of_uint u end.

(* Decimal.__str__ (eng=False, context.capitals=1), _pydecimal.py *)
Definition dec_str (d : dec) : text :=
  let D := digits_of (dcoef d) in
  let n := zlength D in
  let leftdigits := dexp d + n in
  let dotplace := if (dexp d <=? 0) && (-6 <? leftdigits) then leftdigits else 1 in
  let parts :=
    if dotplace <=? 0 then ([48], 46 :: zeros (- dotplace) ++ D)
    else if n <=? dotplace then (D ++ zeros (dotplace - n), [])
    else (firstn (Z.to_nat dotplace) D, 46 :: skipn (Z.to_nat dotplace) D) in
  let ex := if leftdigits =? dotplace then [] else 69 :: signed_str (leftdigits - dotplace) in
  (if dsign d then [45] else []) ++ fst parts ++ snd parts ++ ex.

(* Decimal(s) for s = [-+]? digits? (. digits?)? ([eE] [-+]? digits)?  with at least one digit *)
Definition split_sign (s : text) : bool * text :=
  match s with
  | c :: r => if c =? 45 then (true, r) else if c =? 43 then (false, r) else (false, s)
  | [] => (false, s)
  end.

Definition split_frac (s : text) : text * text :=
  match s with
  | c :: r => if c =? 46 then span_digits r else ([], s)
  | [] => ([], s)
  end.

Definition parse_exp (s : text) : option Z :=
  match s with
  | [] => Some 0
  | c :: r => if (c =? 69) || (c =? 101) then signed_int_of_text r else None
  end.

Definition dec_parse (s : text) : option dec :=
  let p1 := split_sign s in
  let p2 := span_digits (snd p1) in
  let p3 := split_frac (snd p2) in
  if nonempty (fst p2 ++ fst p3) then
    obind (parse_exp (snd p3)) (fun e =>
      Some {| dsign := fst p1; dcoef := Z.of_int (Pos (uint_of_digits (fst p2 ++ fst p3)));
              dexp := e - zlength (fst p3) |})
  else None.

(* ---------- bool ---------- *)
Definition bool_str (b : bool) : text := cps_of_string (if b then "True" else "False").
Definition in_True_true (s : text) : bool :=
  text_eqb s (cps_of_string "True") || text_eqb s (cps_of_string "true").

(* ---------- EEnum: eLiterals as (name, value) in order; a literal is its position ---------- *)
Definition enum := list (text * Z).

Fixpoint find_index {A} (p : A -> bool) (l : list A) : option nat :=
  match l with
  | [] => None
  | x :: r => if p x then Some O else option_map S (find_index p r)
  end.

(* EEnum.getEEnumLiteral(name, value) *)
Definition enum_get (g : enum_get_tag) (e : enum) (name : option text) (value : Z) : option nat :=
  match g with
  | EGET_name_if_truthy_else_value =>
    match name with
    | Some (c :: r) => find_index (fun l => text_eqb (fst l) (c :: r)) e
    | _ => find_index (fun l => snd l =? value) e
    end
  | EGET_unrecognised _ => None
  end.

(* EEnum.from_string(text) *)
Definition enum_from_string (f : enum_fs_tag) (g : enum_get_tag) (e : enum) (s : text) : option nat :=
  match f with
  | EFS_getEEnumLiteral_name => enum_get g e (Some s) 0
  | EFS_unrecognised _ => None
  end.

(* EEnum.to_string(literal) : the inherited str(value), i.e. EEnumLiteral.__str__ *)
Definition enum_to_string (t : ts_tag) (l : lit_str_tag) (e : enum) (i : nat) : option text :=
  match t, l with
  | TS_str, LS_name => option_map fst (nth_error e i)
  | _, _ => None
  end.

(* ---------- the generic layer ---------- *)
Section Conv.
Variable F : Type.                          (* Python floats (all NaNs identified) *)
Variable repr_float : F -> text.            (* float.__repr__ *)
Variable parse_float : text -> option F.    (* float(str) *)

Inductive pyval : Type :=
| VStr (s : text)
| VBool (b : bool)
| VInt (z : Z)
| VFloat (f : F)
| VDec (d : dec)
| VDate (d : datetime).

(* str(v); datetime.__str__ is not needed by any table entry *)
Definition py_str (v : pyval) : option text :=
  match v with
  | VStr s => Some s
  | VBool b => Some (bool_str b)
  | VInt z => Some (str_of_Z z)
  | VFloat f => Some (repr_float f)
  | VDec d => Some (dec_str d)
  | VDate _ => None
  end.

Definition to_string (t : ts_tag) (v : pyval) : option text :=
  match t with
  | TS_str => py_str v
  | TS_str_lower =>
    match py_str v with
    | Some s => if forallb (fun c => c <? 128) s then Some (ascii_lower s) else None
    | None => None
    end
  | TS_strftime fmt => match v with VDate d => strftime fmt d | _ => None end
  | TS_unrecognised _ => None
  end.

Definition from_string (formats : list string) (t : fs_tag) (s : text) : option pyval :=
  match t with
  | FS_id => Some (VStr s)
  | FS_int => option_map VInt (int_of_text s)
  | FS_float => option_map VFloat (parse_float s)
  | FS_Decimal => option_map VDec (dec_parse s)
  | FS_parse_date => option_map VDate (parse_date formats s)
  | FS_in_True_true => Some (VBool (in_True_true s))
  | FS_in_True_true_or_is_True => Some (VBool (in_True_true s))   (* a str is never `is True` *)
  | FS_unrecognised _ => None
  end.
End Conv.

Arguments VStr {F} s.
Arguments VBool {F} b.
Arguments VInt {F} z.
Arguments VFloat {F} f.
Arguments VDec {F} d.
Arguments VDate {F} d.
Arguments py_str {F} repr_float v.
Arguments to_string {F} repr_float t v.
Arguments from_string {F} parse_float formats t s.

(* ---------- one view of both tables ---------- *)
Record conv : Type := { c_name : string; c_type : pytype; c_ts : ts_tag; c_fs : fs_tag }.

(* EDataType.instanceClassName setter: transmap.get(name, (object, True, None)) *)
Definition jt_lookup (icn : string) : pytype :=
  match find (fun e => String.eqb (jt_name e) icn) java_trans_map with
  | Some e => jt_type e
  | None => PT_object
  end.

Definition conv_of_dt (d : dtdecl) : conv :=
  {| c_name := dt_name d; c_type := dt_type d; c_ts := dt_ts d; c_fs := dt_fs d |}.
Definition conv_of_xml (d : xmldecl) : conv :=
  {| c_name := xd_name d; c_type := jt_lookup (xd_icn d); c_ts := xd_ts d; c_fs := xd_fs d |}.

Definition ecore_convs : list conv := map conv_of_dt ecore_datatypes.
Definition xml_convs : list conv := map conv_of_xml xml_datatypes.

(* ---------- token codec (driver: list Z -> list Z) ---------- *)
Definition limb : Z := 16777216.   (* 2^24 *)

Fixpoint take_n {A} (n : nat) (l : list A) : list A :=
  match n, l with S k, x :: r => x :: take_n k r | _, _ => [] end.
Fixpoint drop_n {A} (n : nat) (l : list A) : list A :=
  match n, l with S k, _ :: r => drop_n k r | _, _ => l end.

(* big integer: sign(0|1) n limb_0 .. limb_{n-1}, little endian base 2^24 *)
Definition dec_big (t : list Z) : option (Z * list Z) :=
  match t with
  | sg :: n :: r =>
    let ls := take_n (Z.to_nat n) r in
    let v := fold_right (fun l acc => l + limb * acc) 0 ls in
    Some ((if sg =? 1 then - v else v), drop_n (Z.to_nat n) r)
  | _ => None
  end.

Fixpoint limbs_of (fuel : nat) (v : Z) : list Z :=
  match fuel with
  | O => []
  | S k => if v =? 0 then [] else (v mod limb) :: limbs_of k (v / limb)
  end.

Definition enc_big (z : Z) : list Z :=
  let ls := limbs_of (S (Z.to_nat (Z.log2 (Z.abs z) / 24 + 1))) (Z.abs z) in
  (if z <? 0 then 1 else 0) :: zlength ls :: ls.

Definition dec_text (t : list Z) : option (text * list Z) :=
  match t with
  | n :: r => Some (take_n (Z.to_nat n) r, drop_n (Z.to_nat n) r)
  | [] => None
  end.
Definition enc_text (s : text) : list Z := zlength s :: s.

Definition uval := pyval unit.
Definition u_repr (_ : unit) : text := [].
Definition u_parse (_ : text) : option unit := None.

(* 1 str | 2 bool | 3 int | 5 Decimal | 6 datetime *)
Definition dec_val (t : list Z) : option uval :=
  match t with
  | 1 :: r => option_map (fun p => VStr (fst p)) (dec_text r)
  | 2 :: b :: _ => Some (VBool (b =? 1))
  | 3 :: r => option_map (fun p => VInt (fst p)) (dec_big r)
  | 5 :: sg :: r =>
    obind (dec_big r) (fun p1 =>
    obind (dec_big (snd p1)) (fun p2 =>
      Some (VDec {| dsign := sg =? 1; dcoef := fst p1; dexp := fst p2 |})))
  | 6 :: y :: mo :: d :: h :: mi :: s :: us :: hastz :: off :: _ =>
    Some (VDate {| dy := y; dmo := mo; dd := d; dh := h; dmi := mi; ds := s; dus := us;
                   dtz := if hastz =? 1 then Some off else None |})
  | _ => None
  end.

Definition enc_val (v : uval) : list Z :=
  match v with
  | VStr s => 1 :: enc_text s
  | VBool b => [2; if b then 1 else 0]
  | VInt z => 3 :: enc_big z
  | VFloat _ => [4]
  | VDec d => 5 :: (if dsign d then 1 else 0) :: enc_big (dcoef d) ++ enc_big (dexp d)
  | VDate d => [6; dy d; dmo d; dd d; dh d; dmi d; ds d; dus d;
                match dtz d with Some _ => 1 | None => 0 end;
                match dtz d with Some o => o | None => 0 end]
  end.

Definition enc_opt {A} (enc : A -> list Z) (o : option A) : list Z :=
  match o with Some a => 1 :: enc a | None => [0] end.

Definition pytype_code (t : pytype) : Z :=
  match t with
  | PT_str => 1 | PT_bool => 2 | PT_int => 3 | PT_float => 4 | PT_Decimal => 5 | PT_datetime => 6
  | PT_bytes => 7 | PT_bytearray => 8 | PT_dict => 9 | PT_list => 10 | PT_set => 11 | PT_type => 12
  | PT_object => 13 | PT_unrecognised _ => 0
  end.

Definition table (k : Z) : list conv := if k =? 1 then xml_convs else ecore_convs.

Fixpoint dec_enum (n : nat) (t : list Z) : option (enum * list Z) :=
  match n with
  | O => Some ([], t)
  | S k =>
    obind (dec_text t) (fun p =>
      match snd p with
      | v :: r => obind (dec_enum k r) (fun q => Some ((fst p, v) :: fst q, snd q))
      | [] => None
      end)
  end.

(* requests:
     1 k            names of table k               -> n, then n length-prefixed names
     2 k i value    to_string of entry i           -> 0 | 1 text
     3 k i text     from_string of entry i         -> 0 | 1 value
     4 n lits i     enum to_string of literal i    -> 0 | 1 text
     5 n lits text  enum from_string               -> 0 | 1 index
     6 k i          Python type code of entry i
     7 j text       strptime with the j-th generated format alone -> 0 | 1 value
     8              the generated strptime formats *)
Definition run_dataconv (t : list Z) : list Z :=
  match t with
  | 1 :: k :: _ =>
    zlength (table k) :: flat_map (fun c => enc_text (cps_of_string (c_name c))) (table k)
  | 2 :: k :: i :: r =>
    match nth_error (table k) (Z.to_nat i), dec_val r with
    | Some c, Some v => enc_opt enc_text (to_string u_repr (c_ts c) v)
    | _, _ => [-1]
    end
  | 3 :: k :: i :: r =>
    match nth_error (table k) (Z.to_nat i), dec_text r with
    | Some c, Some (s, _) => enc_opt enc_val (from_string u_parse parse_date_formats (c_fs c) s)
    | _, _ => [-1]
    end
  | 4 :: n :: r =>
    match dec_enum (Z.to_nat n) r with
    | Some (e, i :: _) =>
      enc_opt enc_text (enum_to_string eenum_to_string eenumliteral_str e (Z.to_nat i))
    | _ => [-1]
    end
  | 5 :: n :: r =>
    match dec_enum (Z.to_nat n) r with
    | Some (e, r') =>
      match dec_text r' with
      | Some (s, _) =>
        enc_opt (fun i => [Z.of_nat i]) (enum_from_string eenum_from_string eenum_getEEnumLiteral e s)
      | None => [-1]
      end
    | None => [-1]
    end
  | 6 :: k :: i :: _ =>
    match nth_error (table k) (Z.to_nat i) with
    | Some c => [pytype_code (c_type c)]
    | None => [-1]
    end
  | 7 :: j :: r =>
    match nth_error parse_date_formats (Z.to_nat j), dec_text r with
    | Some f, Some (s, _) => enc_opt enc_val (option_map (@VDate unit) (parse_fmt Strp f s))
    | _, _ => [-1]
    end
  | 8 :: _ =>
    zlength parse_date_formats :: flat_map (fun f => enc_text (cps_of_string f)) parse_date_formats
  | _ => [-1]
  end.
