"""C16: translate the ORDER OF EFFECTS of XMIResource.save (xmi.py) and
JsonResource.save (json.py) into coq/Gen/SaveOrder.v.

Every call inside the body of `save` is classified, in evaluation order
(arguments before the call, statements top to bottom), against a CLOSED list:

  self.open_out_stream(..)                      -> SOpen   (truncating open of the target)
  self._go_across(..) / self.to_dict(..) /
  self.register_eobject_epackage(..)            -> SBuild  (walks the model; may raise)
  Element / QName / SubElement / ElementTree,
  x.append(..), x.update(..) on anything that is
  not a local dict literal, x[..] = ..           -> SBuild  (lxml validates names and values: may raise)
  Element(.., nsmap=..)                          -> SNs     (root element with the collected namespaces)
  json.dumps(..)                                -> SEncode (may raise)
  x.encode(..)                                  -> SBytes  (text to bytes; may raise)
  tree.write(stream, ..)  [tree = ElementTree]  -> SWrite  (serialises while writing)
  stream.write(..)                              -> SWrite
  stream.flush()                                -> SFlush
  self.uri.close_stream()                       -> SClose
  len, .get / .clear, .update on a local dict literal -> nothing

Anything else (an unknown call, try/with/while, branches of an `if` with
different effects, a write on something that is not the opened stream) is
REFUSED: main() returns an error string, the runner records it and the check
reports "translator refused the source" (fail closed)."""
import ast
import os

HERE = os.path.dirname(os.path.abspath(__file__))
VERIF = os.path.dirname(HERE)
REPO = os.environ.get('VERIF_REPO', '/repo')
OUT = os.path.join(VERIF, 'coq', 'Gen', 'SaveOrder.v')

BUILD_METHODS = {'_go_across', 'to_dict', 'register_eobject_epackage'}
# calls that neither touch the target nor walk the model
BENIGN_FUNCS = {'len'}
BENIGN_METHODS = {'get', 'clear'}
TREE_FUNCS = {'QName', 'Element', 'ElementTree', 'SubElement'}     # lxml constructors: may raise
TREE_METHODS = {'append', 'update'}


class Refused(Exception):
    pass


def write_if_changed(path, text):
    old = open(path).read() if os.path.exists(path) else None
    if old != text:
        os.makedirs(os.path.dirname(path), exist_ok=True)
        with open(path, 'w') as f:
            f.write(text)


def dotted(node):
    if isinstance(node, ast.Name):
        return node.id
    if isinstance(node, ast.Attribute):
        b = dotted(node.value)
        return None if b is None else b + '.' + node.attr
    return None


class Effects:
    """Effects of one `save` body, in order."""

    def __init__(self, where):
        self.where = where
        self.stream_var = None      # name bound to the result of open_out_stream
        self.tree_vars = set()      # names bound to ElementTree(..)
        self.dict_vars = set()      # names bound to a dict literal (their .update cannot raise)

    def refuse(self, node, why):
        src = ast.unparse(node)
        raise Refused(f'{self.where}: {why}: `{src[:120]}` (line {getattr(node, "lineno", "?")})')

    def call(self, c):
        """effects of the call itself (its arguments were handled before)."""
        f = c.func
        name = dotted(f)
        if name == 'self.open_out_stream':
            return ['SOpen']
        if name == 'self.uri.close_stream':
            return ['SClose']
        if name == 'json.dumps':
            return ['SEncode']
        if isinstance(f, ast.Attribute) and isinstance(f.value, ast.Name) and f.value.id == 'self' \
                and f.attr in BUILD_METHODS:
            return ['SBuild']
        if isinstance(f, ast.Attribute) and f.attr == 'write':
            recv = dotted(f.value)
            if recv in self.tree_vars:
                tgt = dotted(c.args[0]) if c.args else None
                if tgt is None or tgt != self.stream_var:
                    self.refuse(c, 'tree.write on something that is not the stream opened by open_out_stream')
                return ['SWrite']
            if recv is not None and recv == self.stream_var:
                return ['SWrite']
            self.refuse(c, 'write on something that is not the stream opened by open_out_stream')
        if isinstance(f, ast.Attribute) and f.attr == 'encode':
            return ['SBytes']
        if isinstance(f, ast.Attribute) and f.attr == 'flush':
            if dotted(f.value) is not None and dotted(f.value) == self.stream_var:
                return ['SFlush']
            self.refuse(c, 'flush on something that is not the stream opened by open_out_stream')
        if isinstance(f, ast.Name) and f.id in TREE_FUNCS:
            if f.id == 'Element' and any(k.arg == 'nsmap' for k in c.keywords):
                return ['SNs']
            return ['SBuild']
        if isinstance(f, ast.Attribute) and f.attr in TREE_METHODS:
            if f.attr == 'update' and dotted(f.value) in self.dict_vars:
                return []
            return ['SBuild']
        if isinstance(f, ast.Name) and f.id in BENIGN_FUNCS:
            return []
        if isinstance(f, ast.Attribute) and f.attr in BENIGN_METHODS:
            return []
        self.refuse(c, 'call not in the closed list of recognised shapes')

    def expr(self, e):
        """post-order over the calls of an expression = evaluation order."""
        out = []
        if e is None:
            return out
        if isinstance(e, (ast.Lambda, ast.ListComp, ast.SetComp, ast.DictComp, ast.GeneratorExp,
                          ast.Await, ast.Yield, ast.YieldFrom, ast.NamedExpr, ast.IfExp)):
            # lazily / conditionally evaluated: accept only when free of calls
            if any(isinstance(n, ast.Call) for n in ast.walk(e)):
                self.refuse(e, 'conditionally or lazily evaluated expression containing a call')
            return out
        if isinstance(e, ast.Call):
            out += self.expr(e.func.value) if isinstance(e.func, ast.Attribute) else []
            for a in e.args:
                out += self.expr(a)
            for k in e.keywords:
                out += self.expr(k.value)
            out += self.call(e)
            return out
        for ch in ast.iter_child_nodes(e):
            if isinstance(ch, ast.expr):
                out += self.expr(ch)
        return out

    def stmts(self, body):
        out = []
        for s in body:
            out += self.stmt(s)
        return out

    def stmt(self, s):
        if isinstance(s, ast.Expr):
            if isinstance(s.value, ast.Constant):
                return []           # docstring
            return self.expr(s.value)
        if isinstance(s, (ast.Assign, ast.AnnAssign, ast.AugAssign)):
            value = s.value
            eff = self.expr(value)
            targets = s.targets if isinstance(s, ast.Assign) else [s.target]
            for t in targets:
                eff += self.expr(t) if not isinstance(t, ast.Name) else []
                if isinstance(t, ast.Subscript):
                    eff += ['SBuild']       # item / slice assignment on a tree node: lxml may raise
            if isinstance(value, ast.Dict) and len(targets) == 1 and isinstance(targets[0], ast.Name):
                self.dict_vars.add(targets[0].id)
            if isinstance(value, ast.Call):
                n = dotted(value.func)
                if n == 'self.open_out_stream':
                    if len(targets) != 1 or not isinstance(targets[0], ast.Name):
                        self.refuse(s, 'result of open_out_stream not bound to a plain name')
                    self.stream_var = targets[0].id
                elif n == 'ElementTree' and len(targets) == 1 and isinstance(targets[0], ast.Name):
                    self.tree_vars.add(targets[0].id)
            return eff
        if isinstance(s, ast.If):
            eff = self.expr(s.test)
            a = dedupe(self.stmts(s.body))
            b = dedupe(self.stmts(s.orelse))
            if s.orelse and a != b:
                self.refuse(s, f'branches with different effects {a} / {b}')
            if not s.orelse and a:
                self.refuse(s, f'conditional effects {a} without else branch')
            return eff + a
        if isinstance(s, ast.For):
            eff = self.expr(s.iter)
            body = dedupe(self.stmts(s.body))
            if any(x != 'SBuild' for x in body) or s.orelse:
                self.refuse(s, f'loop whose body does more than building ({body})')
            return eff + body
        if isinstance(s, ast.Pass):
            return []
        self.refuse(s, f'statement kind {type(s).__name__} not recognised')


def dedupe(seq):
    out = []
    for x in seq:
        if not out or out[-1] != x:
            out.append(x)
    return out


def save_effects(relpath, clsname):
    path = os.path.join(REPO, relpath)
    tree = ast.parse(open(path).read(), filename=path)
    for node in tree.body:
        if isinstance(node, ast.ClassDef) and node.name == clsname:
            for m in node.body:
                if isinstance(m, ast.FunctionDef) and m.name == 'save':
                    e = Effects(f'{relpath}:{clsname}.save')
                    seq = dedupe(e.stmts(m.body))
                    for need in ('SOpen', 'SWrite'):
                        if seq.count(need) != 1:
                            raise Refused(f'{relpath}:{clsname}.save: expected exactly one {need} in {seq}')
                    if 'SBuild' not in seq:
                        raise Refused(f'{relpath}:{clsname}.save: no construction step in {seq}')
                    return seq
    raise Refused(f'{relpath}: {clsname}.save not found')


def check_open_is_truncating():
    """URI.create_outstream must be `open(self.plain, 'wb')` and Resource.open_out_stream
    must return a create_outstream() result: that is what SOpen = truncate means."""
    path = os.path.join(REPO, 'pyecore/resources/resource.py')
    tree = ast.parse(open(path).read(), filename=path)
    ok_create = ok_open = False
    for node in tree.body:
        if isinstance(node, ast.ClassDef) and node.name == 'URI':
            for m in node.body:
                if isinstance(m, ast.FunctionDef) and m.name == 'create_outstream':
                    for c in ast.walk(m):
                        if isinstance(c, ast.Call) and dotted(c.func) == 'open' and len(c.args) == 2 \
                                and isinstance(c.args[1], ast.Constant) and c.args[1].value == 'wb':
                            ok_create = True
        if isinstance(node, ast.ClassDef) and node.name == 'Resource':
            for m in node.body:
                if isinstance(m, ast.FunctionDef) and m.name == 'open_out_stream':
                    calls = [dotted(c.func) for c in ast.walk(m) if isinstance(c, ast.Call)]
                    rest = [c for c in calls if c not in ('isinstance', 'URI')]
                    if rest and all(c is not None and c.endswith('.create_outstream') for c in rest):
                        ok_open = True
    if not ok_create:
        raise Refused("resource.py: URI.create_outstream is not `open(self.plain, 'wb')`")
    if not ok_open:
        raise Refused('resource.py: Resource.open_out_stream does more than calling create_outstream()')


def main():
    try:
        check_open_is_truncating()
        xmi = save_effects('pyecore/resources/xmi.py', 'XMIResource')
        js = save_effects('pyecore/resources/json.py', 'JsonResource')
    except Refused as e:
        return str(e)
    text = ('(* GENERATED by translator/saveorder_gen.py from pyecore/resources/xmi.py and json.py\n'
            '   (bodies of XMIResource.save / JsonResource.save).  Do not edit. *)\n'
            'From Coq Require Import List.\n'
            'From PyecoreV Require Import Model.SaveFs.\n'
            'Import ListNotations.\n\n'
            f'Definition save_order_xmi : list step := [{"; ".join(xmi)}].\n'
            f'Definition save_order_json : list step := [{"; ".join(js)}].\n')
    write_if_changed(OUT, text)
    return ''


if __name__ == '__main__':
    r = main()
    print(r or open(OUT).read())
