(* The two collection behaviours that ECollection.create can produce
   (valuecontainer.py:157-168): OrderedSet-based for unique features
   (EOrderedSet, ESet) and list-based otherwise (EList, EBag), seen through
   the element-level public operations.  Type checks, notifications and
   opposite handling are the kernel's (Model/Kernel.v); here only the
   container discipline.  Includes the token codec used by the extracted
   driver.  No proofs here. *)
From Coq Require Import ZArith List Bool.
From PyecoreV Require Import Lib.PyBase Lib.PyList Model.OSet.
Import ListNotations.
Open Scope Z_scope.

Inductive cop : Type :=
| CAppend (x : Z)            (* append / add *)
| CInsert (i x : Z)
| CRemove (x : Z)
| CPop (i : Z)               (* pop(i); pop() is pop(-1) *)
| CClear
| CSetItem (i x : Z)
| CDelItem (i : Z)
| CExtend (xs : list Z).     (* extend / update / += *)

(* state, optional return value *)
Definition cres (S : Type) := res (S * option Z).

Definition oset_step (op : cop) (o : oset) : cres oset :=
  match op with
  | CAppend x => Ok (os_add x o, None)
  | CInsert i x => Ok (os_insert i x o, None)
  | CRemove x => match os_remove x o with Ok o' => Ok (o', None) | Err e => Err e end
  | CPop i => match os_pop i o with Ok (x, o') => Ok (o', Some x) | Err e => Err e end
  | CClear => Ok (os_clear o, None)
  | CSetItem i x => match os_setitem i x o with Ok o' => Ok (o', None) | Err e => Err e end
  | CDelItem i => match os_delitem i o with Ok o' => Ok (o', None) | Err e => Err e end
  | CExtend xs => Ok (os_update xs o, None)
  end.

(* the list-based collections: plain CPython list methods *)
Definition list_step (op : cop) (l : list Z) : cres (list Z) :=
  match op with
  | CAppend x => Ok (l ++ [x], None)
  | CInsert i x => Ok (py_insert i x l, None)
  | CRemove x => match remove_first Z.eqb x l with Some l' => Ok (l', None) | None => Err ValueErr end
  | CPop i => match py_pop i l with Some (x, l') => Ok (l', Some x) | None => Err IndexErr end
  | CClear => Ok ([], None)
  | CSetItem i x => match norm_index (zlen l) i with
                    | Some k => Ok (set_at (Z.to_nat k) x l, None)
                    | None => Err IndexErr
                    end
  | CDelItem i => match py_pop i l with Some (_, l') => Ok (l', None) | None => Err IndexErr end
  | CExtend xs => Ok (l ++ xs, None)
  end.

(* the abstract specification of a unique collection: a duplicate-free list *)
Definition uspec_step (op : cop) (l : list Z) : cres (list Z) :=
  match op with
  | CAppend x => Ok (sp_add x l, None)
  | CInsert i x => Ok (sp_insert i x l, None)
  | CRemove x => match sp_remove x l with Ok l' => Ok (l', None) | Err e => Err e end
  | CPop i => match sp_pop i l with Ok (x, l') => Ok (l', Some x) | Err e => Err e end
  | CClear => Ok ([], None)
  | CSetItem i x => match sp_setitem i x l with Ok l' => Ok (l', None) | Err e => Err e end
  | CDelItem i => match sp_pop i l with Ok (_, l') => Ok (l', None) | Err e => Err e end
  | CExtend xs => Ok (fold_left (fun acc k => sp_add k acc) xs l, None)
  end.

(* ---------- observation, token codec ---------- *)

Definition NONE_TOK : Z := -99999.

Fixpoint zrange (lo : Z) (n : nat) : list Z :=
  match n with O => [] | S n' => lo :: zrange (lo + 1) n' end.

Definition obs_items_list (univ : list Z) (l : list Z) : list Z :=
  let len := zlen l in
  [len] ++ l
  ++ map (fun u => match index_of Z.eqb u l with Some n => Z.of_nat n | None => NONE_TOK end) univ
  ++ map (fun u => if memb Z.eqb u l then 1 else 0) univ
  ++ map (fun i => match py_get i l with Some x => x | None => NONE_TOK end)
         (zrange (- len - 1) (Z.to_nat (2 * len + 2))).

Definition obs_oset (univ : list Z) (o : oset) : list Z :=
  let len := os_len o in
  [len] ++ items o
  ++ map (fun u => match os_index u o with Ok i => i | Err _ => NONE_TOK end) univ
  ++ map (fun u => if os_contains u o then 1 else 0) univ
  ++ map (fun i => match os_getitem i o with Ok x => x | Err _ => NONE_TOK end)
         (zrange (- len - 1) (Z.to_nat (2 * len + 2))).

Fixpoint take {A} (n : nat) (l : list A) : list A :=
  match n, l with S n', x :: xs => x :: take n' xs | _, _ => [] end.
Fixpoint drop {A} (n : nat) (l : list A) : list A :=
  match n, l with S n', _ :: xs => drop n' xs | _, _ => l end.

(* one op = code a b, except extend = 8 n x1..xn *)
Fixpoint decode_ops (fuel : nat) (t : list Z) : list cop :=
  match fuel with
  | O => []
  | S f =>
    match t with
    | 8 :: n :: rest =>
      CExtend (take (Z.to_nat n) rest) :: decode_ops f (drop (Z.to_nat n) rest)
    | c :: a :: b :: rest =>
      (match c with
       | 1 => CAppend a
       | 2 => CInsert a b
       | 3 => CRemove a
       | 4 => CPop a
       | 5 => CClear
       | 6 => CSetItem a b
       | 7 => CDelItem a
       | _ => CClear
       end) :: decode_ops f rest
    | _ => []
    end
  end.

Definition out_outcome {S} (r : cres S) : list Z :=
  match r with
  | Ok (_, Some x) => [0; 1; x]
  | Ok (_, None) => [0; 0; 0]
  | Err e => [exn_code e; 0; 0]
  end.

Fixpoint run_ops {S} (step : cop -> S -> cres S) (obs : S -> list Z)
         (ops : list cop) (s : S) : list Z :=
  match ops with
  | [] => []
  | op :: ops' =>
    let r := step op s in
    let s' := match r with Ok (s', _) => s' | Err _ => s end in
    out_outcome r ++ obs s' ++ run_ops step obs ops' s'
  end.

(* tokens: unique? ; |univ| ; univ... ; ops... *)
Definition run_coll (t : list Z) : list Z :=
  match t with
  | uniq :: n :: rest =>
    let univ := take (Z.to_nat n) rest in
    let ops := decode_ops (length rest) (drop (Z.to_nat n) rest) in
    if uniq =? 1 then run_ops oset_step (obs_oset univ) ops os_empty
    else if uniq =? 2 then run_ops uspec_step (obs_items_list univ) ops []
    else run_ops list_step (obs_items_list univ) ops []
  | _ => []
  end.
