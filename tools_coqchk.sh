#!/bin/bash
# independent re-check of every compiled Props module and everything it depends on (coqchk), with the axiom summary
cd /verif/coq || exit 9
mods=$(ls Props/*.v | sed 's#Props/\(.*\)\.v#PyecoreV.Props.\1#' | tr '\n' ' ')
timeout 3600 coqchk -o -silent -Q . PyecoreV $mods > /verif/notes/coqchk_summary.txt 2>&1
echo "exit=$? commit=$(git -C /verif log --format=%h -1) date=$(date -u +%FT%TZ)" >> /verif/notes/coqchk_summary.txt
tail -15 /verif/notes/coqchk_summary.txt
