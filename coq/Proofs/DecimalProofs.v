(* Decimal(str(d)) = d for every finite decimal (sign, coefficient >= 0, exponent). *)
From Coq Require Import ZArith List Bool Lia String Decimal DecimalZ.
From PyecoreV Require Import Model.Text Model.DateTime Model.DataTypeDecl Model.DataConv Proofs.TextFacts.
Import ListNotations.
Open Scope Z_scope.

Lemma head_nondigit_app : forall (a b : text),
  match a with [] => True | c :: _ => is_digit c = false end ->
  (a = [] -> match b with [] => True | c :: _ => is_digit c = false end) ->
  match a ++ b with [] => True | c :: _ => is_digit c = false end.
Proof. intros [|x a] b Ha Hb; simpl; [apply Hb; reflexivity|exact Ha]. Qed.

(* the reader on every text of the shape the writer produces *)
Lemma dec_parse_general : forall (sg : bool) (ip fp : text) (dot : bool) (ex : text) (e : Z),
  all_digits ip = true -> ip <> [] -> all_digits fp = true -> (dot = false -> fp = []) ->
  (ex = [] /\ e = 0) \/ ex = 69 :: signed_str e ->
  dec_parse ((if sg then [45] else []) ++ ip ++ (if dot then 46 :: fp else []) ++ ex) =
  Some {| dsign := sg; dcoef := Z.of_int (Pos (uint_of_digits (ip ++ fp))); dexp := e - zlength fp |}.
Proof.
  intros sg ip fp dot ex e Hip Hne Hfp Hdot Hex.
  assert (Hexh : match ex with [] => True | c :: _ => is_digit c = false end).
  { destruct Hex as [(-> & _)| ->]; [exact I|reflexivity]. }
  assert (Hsig : signed_int_of_text (signed_str e) = Some e) by apply signed_int_of_signed_str.
  set (rest2 := (if dot then 46 :: fp else []) ++ ex).
  assert (Hr2 : match rest2 with [] => True | c :: _ => is_digit c = false end).
  { unfold rest2. destruct dot; [reflexivity|exact Hexh]. }
  assert (Hspan : span_digits (ip ++ rest2) = (ip, rest2)) by (apply span_digits_app; assumption).
  assert (Hstart : split_sign ((if sg then [45] else []) ++ ip ++ rest2) = (sg, ip ++ rest2)).
  { unfold split_sign. destruct sg.
    - reflexivity.
    - destruct ip as [|c ip']; [contradiction|]. simpl in Hip. apply andb_true_iff in Hip.
      destruct Hip as [Hc _]. destruct (digit_not_sign c Hc) as (H45 & H43 & _).
      cbn [List.app]. rewrite H45, H43. reflexivity. }
  assert (Hfrac : split_frac rest2 = (fp, ex)).
  { unfold split_frac, rest2. destruct dot.
    - cbn [List.app]. rewrite Z.eqb_refl. apply span_digits_app; assumption.
    - rewrite (Hdot eq_refl). cbn [List.app]. destruct ex as [|c r]; [reflexivity|].
      destruct Hex as [(Hx & _)|Hx]; [discriminate|]. inversion Hx; subst. reflexivity. }
  assert (Hn : nonempty (ip ++ fp) = true) by (destruct ip; [contradiction|reflexivity]).
  unfold dec_parse. fold rest2. cbv zeta.
  rewrite Hstart. cbn [fst snd]. rewrite Hspan. cbn [fst snd]. rewrite Hfrac. cbn [fst snd].
  rewrite Hn. unfold parse_exp.
  destruct Hex as [(-> & ->)| ->].
  - reflexivity.
  - change ((69 =? 69) || (69 =? 101)) with true. cbv iota. rewrite Hsig. reflexivity.
Qed.

Lemma zlength_app : forall (a b : text), zlength (a ++ b) = zlength a + zlength b.
Proof. intros a b. unfold zlength. rewrite app_length, Nat2Z.inj_add. reflexivity. Qed.

Lemma zlength_zeros : forall k, 0 <= k -> zlength (zeros k) = k.
Proof. intros k Hk. unfold zlength, zeros. rewrite repeat_length, Z2Nat.id by exact Hk. reflexivity. Qed.

Lemma zlength_skipn : forall k (l : text), 0 <= k <= zlength l ->
  zlength (skipn (Z.to_nat k) l) = zlength l - k.
Proof.
  intros k l Hk. unfold zlength in *. rewrite skipn_length.
  rewrite Nat2Z.inj_sub by (apply Nat2Z.inj_le; rewrite Z2Nat.id; lia).
  rewrite Z2Nat.id by lia. reflexivity.
Qed.

Lemma firstn_nonempty : forall k (l : text), 0 < k -> l <> [] -> firstn (Z.to_nat k) l <> [].
Proof.
  intros k l Hk Hl. destruct l as [|x l]; [contradiction|].
  destruct (Z.to_nat k) eqn:E; [lia|]. simpl. discriminate.
Qed.

Lemma of_int_pos_cons0 : forall l, Z.of_int (Pos (uint_of_digits (48 :: l))) = Z.of_int (Pos (uint_of_digits l)).
Proof. intros l. reflexivity. Qed.

Lemma of_int_pos_zeros : forall k l,
  Z.of_int (Pos (uint_of_digits (zeros k ++ l))) = Z.of_int (Pos (uint_of_digits l)).
Proof. intros k l. unfold Z.of_int. apply of_uint_zeros. Qed.

Theorem dec_roundtrip : forall d, 0 <= dcoef d -> dec_parse (dec_str d) = Some d.
Proof.
  intros [sg c e] Hc. cbn [dcoef] in Hc.
  destruct (to_int_nonneg c Hc) as (u & Eu & Hu).
  assert (HD : digits_of c = list_of_uint u) by (unfold digits_of; rewrite Eu; reflexivity).
  set (D := list_of_uint u) in *.
  assert (Hd : all_digits D = true) by apply all_digits_list_of.
  assert (Hne : D <> []).
  { intros E0. pose proof (list_of_uint_nonempty u Hu) as H. fold D in H. rewrite E0 in H. discriminate. }
  assert (Hval : Z.of_int (Pos (uint_of_digits D)) = c).
  { unfold D. rewrite uint_of_list_of, <- Eu. apply of_to. }
  assert (Hn : 1 <= zlength D).
  { destruct D; [contradiction|]. unfold zlength. cbn [List.length]. lia. }
  unfold dec_str. cbn [dsign dcoef dexp]. rewrite HD. cbv zeta.
  set (n := zlength D) in *.
  destruct ((e <=? 0) && (-6 <? e + n)) eqn:Eplain.
  - (* no exponent needed *)
    apply andb_true_iff in Eplain. destruct Eplain as [He Hl]. apply Z.leb_le in He. apply Z.ltb_lt in Hl.
    rewrite Z.eqb_refl.
    destruct (e + n <=? 0) eqn:E1; [apply Z.leb_le in E1 | apply Z.leb_gt in E1].
    + cbn [fst snd].
      transitivity (Some {| dsign := sg;
                            dcoef := Z.of_int (Pos (uint_of_digits ([48] ++ zeros (- (e + n)) ++ D)));
                            dexp := 0 - zlength (zeros (- (e + n)) ++ D) |}).
      * apply (dec_parse_general sg [48] (zeros (- (e + n)) ++ D) true [] 0).
        -- reflexivity.
        -- discriminate.
        -- rewrite all_digits_app, all_digits_zeros, Hd. reflexivity.
        -- discriminate.
        -- left. split; reflexivity.
      * f_equal. f_equal.
        -- cbn [List.app]. rewrite of_int_pos_cons0, of_int_pos_zeros. exact Hval.
        -- rewrite zlength_app, zlength_zeros by lia. fold n. lia.
    + destruct (n <=? e + n) eqn:E2; [apply Z.leb_le in E2 | apply Z.leb_gt in E2].
      * cbn [fst snd]. replace (e + n - n) with 0 by lia. change (zeros 0) with (@nil Z).
        transitivity (Some {| dsign := sg;
                              dcoef := Z.of_int (Pos (uint_of_digits ((D ++ []) ++ [])));
                              dexp := 0 - zlength (@nil Z) |}).
        -- apply (dec_parse_general sg (D ++ []) [] false [] 0).
           ++ rewrite app_nil_r. exact Hd.
           ++ rewrite app_nil_r. exact Hne.
           ++ reflexivity.
           ++ reflexivity.
           ++ left. split; reflexivity.
        -- f_equal. f_equal.
           ++ rewrite !app_nil_r. exact Hval.
           ++ unfold zlength. simpl. lia.
      * cbn [fst snd].
        transitivity (Some {| dsign := sg;
                              dcoef := Z.of_int (Pos (uint_of_digits (firstn (Z.to_nat (e + n)) D ++ skipn (Z.to_nat (e + n)) D)));
                              dexp := 0 - zlength (skipn (Z.to_nat (e + n)) D) |}).
        -- apply (dec_parse_general sg (firstn (Z.to_nat (e + n)) D) (skipn (Z.to_nat (e + n)) D) true [] 0).
           ++ apply all_digits_firstn. exact Hd.
           ++ apply firstn_nonempty; [lia|exact Hne].
           ++ apply all_digits_skipn. exact Hd.
           ++ discriminate.
           ++ left. split; reflexivity.
        -- f_equal. f_equal.
           ++ rewrite firstn_skipn. exact Hval.
           ++ rewrite zlength_skipn by (fold n; lia). fold n. lia.
  - (* scientific notation: one digit before the point *)
    assert (Hsci : 0 < e \/ e + n <= -6).
    { apply andb_false_iff in Eplain. destruct Eplain as [H|H]; [apply Z.leb_gt in H | apply Z.ltb_ge in H]; lia. }
    change (1 <=? 0) with false. cbv iota.
    set (ex := if e + n =? 1 then [] else 69 :: signed_str (e + n - 1)).
    assert (Hex : (ex = [] /\ e + n - 1 = 0) \/ ex = 69 :: signed_str (e + n - 1)).
    { unfold ex. destruct (e + n =? 1) eqn:E3; [apply Z.eqb_eq in E3; left; split; [reflexivity|lia] | right; reflexivity]. }
    destruct (n <=? 1) eqn:E2; [apply Z.leb_le in E2 | apply Z.leb_gt in E2].
    + cbn [fst snd]. replace (1 - n) with 0 by lia. change (zeros 0) with (@nil Z).
      transitivity (Some {| dsign := sg;
                            dcoef := Z.of_int (Pos (uint_of_digits ((D ++ []) ++ [])));
                            dexp := (e + n - 1) - zlength (@nil Z) |}).
      * apply (dec_parse_general sg (D ++ []) [] false ex (e + n - 1)).
        -- rewrite app_nil_r. exact Hd.
        -- rewrite app_nil_r. exact Hne.
        -- reflexivity.
        -- reflexivity.
        -- exact Hex.
      * f_equal. f_equal.
        -- rewrite !app_nil_r. exact Hval.
        -- unfold zlength at 1. simpl. lia.
    + cbn [fst snd]. change (Z.to_nat 1) with 1%nat.
      transitivity (Some {| dsign := sg;
                            dcoef := Z.of_int (Pos (uint_of_digits (firstn 1 D ++ skipn 1 D)));
                            dexp := (e + n - 1) - zlength (skipn 1 D) |}).
      * apply (dec_parse_general sg (firstn 1 D) (skipn 1 D) true ex (e + n - 1)).
        -- apply all_digits_firstn. exact Hd.
        -- apply (firstn_nonempty 1); [lia|exact Hne].
        -- apply all_digits_skipn. exact Hd.
        -- discriminate.
        -- exact Hex.
      * f_equal. f_equal.
        -- rewrite firstn_skipn. exact Hval.
        -- rewrite (zlength_skipn 1) by (fold n; lia). fold n. lia.
Qed.
