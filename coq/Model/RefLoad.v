(* One end of a many-valued unique reference while a document is loaded
   (xmi.py XMIResource._decode_ereferences, json.py JsonResource.process_inst
   list case).  The collection is an OrderedSet (Model/OSet.v).  Elements
   arrive in two ways:
     Link x  : the other end of the bidirectional reference was decoded and
               the opposite handshake appends x  (append(x, update_opposite=False)
               on a set: no effect when x is present);
     Place x : x is read from this end's own list: when x is already present
               (it was linked) it is moved to the end
               (remove(x, update_opposite=False); append(x, update_opposite=False)),
               otherwise appended.
   Also: the reason why the JSON loader must not fill such a collection with
   unresolved proxies -- a tiny model of a set keyed by identity.
   No proofs here. *)
From Coq Require Import ZArith List Bool.
From PyecoreV Require Import Lib.PyBase Lib.PyList Model.OSet.
Import ListNotations.
Open Scope Z_scope.

Definition os_place (x : Z) (o : oset) : oset :=
  if os_contains x o
  then match os_remove x o with Ok o' => os_add x o' | Err _ => o end
  else os_add x o.

(* list specification *)
Definition sp_place (x : Z) (l : list Z) : list Z :=
  if memb Z.eqb x l
  then match sp_remove x l with Ok l' => sp_add x l' | Err _ => l end
  else sp_add x l.

Inductive lev : Type := Link (x : Z) | Place (x : Z).

Definition os_lev (o : oset) (e : lev) : oset :=
  match e with Link x => os_add x o | Place x => os_place x o end.

(* handshakes from objects decoded earlier, then the end's own list, then
   handshakes from objects decoded later *)
Definition load_events (pre own post : list Z) : list lev :=
  map Link pre ++ map Place own ++ map Link post.

Definition load_end (pre own post : list Z) : oset :=
  fold_left os_lev (load_events pre own post) os_empty.

(* the loader before the fix: the own list was appended like a handshake *)
Definition load_end_append_only (pre own post : list Z) : oset :=
  fold_left os_lev (map Link (pre ++ own ++ post)) os_empty.

(* ---------- unresolved proxies as set members ---------- *)

(* an element handed to the collection: the object itself, or a proxy (its own
   identity, the object it will resolve to) *)
Inductive elt : Type := Obj (o : Z) | Proxy (ident target : Z).

(* EProxy.__hash__ / set membership while unresolved: by identity of the proxy;
   objects by their own identity (identities of proxies are odd, of objects even) *)
Definition key (e : elt) : Z :=
  match e with Obj o => 2 * o | Proxy i _ => 2 * i + 1 end.

(* what iteration yields once every proxy is resolved *)
Definition target (e : elt) : Z :=
  match e with Obj o => o | Proxy _ t => t end.

(* lazy loader: the elements are added under their key as they come *)
Fixpoint add_by_key (seen : list Z) (es : list elt) : list elt :=
  match es with
  | [] => []
  | e :: r => if memb Z.eqb (key e) seen then add_by_key seen r
              else e :: add_by_key (key e :: seen) r
  end.
Definition lazy_collection (es : list elt) : list Z := map target (add_by_key [] es).

(* eager loader: a proxy is resolved before it is added *)
Definition eager_collection (es : list elt) : oset := os_update (map target es) os_empty.

(* ---------- token codec: n_pre pre.. n_own own.. n_post post.. -> items of load_end ---------- *)
Fixpoint rl_take {A} (n : nat) (l : list A) : list A :=
  match n, l with S n', x :: xs => x :: rl_take n' xs | _, _ => [] end.
Fixpoint rl_drop {A} (n : nat) (l : list A) : list A :=
  match n, l with S n', _ :: xs => rl_drop n' xs | _, _ => l end.
Definition rl_get (t : list Z) : list Z * list Z :=
  match t with
  | n :: r => (rl_take (Z.to_nat n) r, rl_drop (Z.to_nat n) r)
  | [] => ([], [])
  end.
Definition run_refload (t : list Z) : list Z :=
  let (pre, r1) := rl_get t in
  let (own, r2) := rl_get r1 in
  let (post, _) := rl_get r2 in
  items (load_end pre own post).
