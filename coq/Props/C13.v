(* C13 — static and dynamic definitions of a metamodel are interchangeable.
   The kernel model (Model/Kernel.v) takes the metamodel as a VALUE: its
   behaviour is a function of that description only.  Two renderings of one
   description are interchangeable as soon as each of them corresponds to the
   kernel run; that is the (deliberately simple) theorem below, and the
   substance is the pair of correspondences established on every run of
   harness/props/c13.py — dynamic rendering vs model, generated static module
   (MetaEClass and @EMetaclass) vs the SAME model run — plus the direct
   comparison of the traces, of the reflective descriptions and the
   cross-loading of saved documents on the implementation.
   PARTIAL by nature: the reflection performed by Core._promote on a class body
   is modelled and proved in C20 (Model/Operations.v); everything else about
   metaclass machinery is outside the model and carried by the correspondence. *)
From Coq Require Import ZArith List Bool Arith.
From PyecoreV Require Import Lib.PyBase Lib.PyList Model.Coll Model.Kernel Model.KernelIO.
Import ListNotations.

(* an implementation, seen through the harness, maps a token-encoded case to a token-encoded trace *)
Definition refines_kernel (impl : list Z -> list Z) : Prop :=
  forall t, impl t = run_kernel t.

Theorem C13_two_renderings_of_one_description_agree :
  forall dyn stat, refines_kernel dyn -> refines_kernel stat -> forall t, dyn t = stat t.
Proof. intros dyn stat H1 H2 t. rewrite H1, H2. reflexivity. Qed.
Print Assumptions C13_two_renderings_of_one_description_agree.

(* the kernel's behaviour depends on the description only: same tokens, same trace — and the trace
   is a total function (the run always terminates with an answer) *)
Theorem C13_kernel_is_a_function_of_the_description :
  forall t1 t2, t1 = t2 -> run_kernel t1 = run_kernel t2.
Proof. intros t1 t2 ->. reflexivity. Qed.
Print Assumptions C13_kernel_is_a_function_of_the_description.
