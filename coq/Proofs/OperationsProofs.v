(* Facts about Model/Operations.v: the generated header, when Python accepts
   it, what inspect.signature shows, and the reflection of static class bodies. *)
From Coq Require Import String Ascii ZArith Bool List Lia.
From PyecoreV Require Import Lib.PyBase Lib.PyList Model.Operations.
Import ListNotations.
Open Scope Z_scope.

Lemma name_eqb_eq a : forall b, name_eqb a b = true <-> a = b.
Proof.
  induction a as [|x a IH]; intros [|y b]; simpl; split; intros H; try reflexivity; try discriminate.
  - apply andb_true_iff in H. destruct H as [H1 H2]. apply Z.eqb_eq in H1. apply IH in H2. congruence.
  - inversion H; subst. rewrite Z.eqb_refl. simpl. apply IH. reflexivity.
Qed.

Lemma name_eqb_refl a : name_eqb a a = true.
Proof. apply name_eqb_eq. reflexivity. Qed.

Lemma name_eqb_neq a b : name_eqb a b = false <-> a <> b.
Proof.
  pose proof (name_eqb_eq a b) as H. destruct (name_eqb a b).
  - split; [discriminate|]. intros N. exfalso. apply N. apply H. reflexivity.
  - split; [|reflexivity]. intros _ E. apply H in E. discriminate.
Qed.

Lemma name_eqb_sym a b : name_eqb a b = name_eqb b a.
Proof.
  destruct (name_eqb a b) eqn:E.
  - apply name_eqb_eq in E. subst. symmetry. apply name_eqb_refl.
  - symmetry. apply name_eqb_neq. apply name_eqb_neq in E. congruence.
Qed.

Lemma nmem_In n l : nmem n l = true <-> In n l.
Proof.
  unfold nmem. rewrite existsb_exists. split.
  - intros (x & Hx & E). apply name_eqb_eq in E. subst. assumption.
  - intros H. exists n. split; [assumption|apply name_eqb_refl].
Qed.

Lemma method_name_spec n ps :
  h_name (to_code n ps) = normalized_name n /\
  (is_keyword n = true -> normalized_name n = n ++ [95]) /\
  (is_keyword n = false -> normalized_name n = n).
Proof.
  split; [reflexivity|]. unfold normalized_name. split; intros ->; reflexivity.
Qed.

(* a declaration none of whose parameters is called self *)
Definition no_self (ps : list param) : Prop :=
  forall p, In p ps -> name_eqb (p_name p) SELF = false.

(* what inspect.signature must show for a declared parameter *)
Definition view_of (p : param) : name * option dtext :=
  (p_name p, pc_default (param_to_code p)).

Lemma view_of_required p : p_required p = true -> view_of p = (p_name p, None).
Proof. unfold view_of, param_to_code. intros ->. reflexivity. Qed.

Lemma view_of_optional p : p_required p = false -> exists d, view_of p = (p_name p, Some d).
Proof. unfold view_of, param_to_code. intros ->. simpl. eexists. reflexivity. Qed.

(* ---------- sig_of: self, then the declared parameters in order ---------- *)

Lemma sig_of_no_self ps : no_self ps -> sig_of ps = self_code :: map param_to_code ps.
Proof.
  intros H. unfold sig_of. destruct ps as [|p ps]; [reflexivity|].
  assert (E : is_self_code (param_to_code p) = false).
  { unfold is_self_code. replace (pc_name (param_to_code p)) with (p_name p).
    - rewrite (H p (or_introl eq_refl)). reflexivity.
    - unfold param_to_code. destruct (p_required p); reflexivity. }
  cbn -[is_self_code param_to_code]. rewrite E. reflexivity.
Qed.

Lemma pc_name_param p : pc_name (param_to_code p) = p_name p.
Proof. unfold param_to_code. destruct (p_required p); reflexivity. Qed.

Lemma pc_default_none p : pc_default (param_to_code p) = None <-> p_required p = true.
Proof. unfold param_to_code. destruct (p_required p); simpl; split; congruence. Qed.

Theorem sig_of_declared ps :
  no_self ps ->
  map pc_name (sig_of ps) = SELF :: map p_name ps /\
  forall i p, nth_error ps i = Some p ->
    exists c, nth_error (sig_of ps) (S i) = Some c /\ pc_name c = p_name p /\
              (pc_default c = None <-> p_required p = true).
Proof.
  intros H. rewrite (sig_of_no_self _ H). split.
  - simpl. f_equal. rewrite map_map. apply map_ext. apply pc_name_param.
  - intros i p E. exists (param_to_code p). simpl. split; [apply map_nth_error; assumption|].
    split; [apply pc_name_param|apply pc_default_none].
Qed.

(* ---------- validity: no required parameter after an optional one ---------- *)

Lemma req_after_opt_spec ps : forall b,
  req_after_opt b (map param_to_code ps) = negb (well_ordered b ps).
Proof.
  induction ps as [|p ps IH]; intros b; simpl; [reflexivity|].
  unfold param_to_code at 1. destruct (p_required p); simpl.
  - rewrite IH. destruct b; simpl; reflexivity.
  - apply IH.
Qed.

Definition lit_defaults (ps : list param) : Prop :=
  forall p, In p ps -> p_required p = false -> exists t, p_default p = DLit t.

Lemma no_bare ps : lit_defaults ps -> existsb is_bare (map param_to_code ps) = false.
Proof.
  induction ps as [|p ps IH]; intros H; simpl; [reflexivity|].
  rewrite IH; [|intros q Hq; apply H; right; assumption]. rewrite orb_false_r.
  unfold is_bare, param_to_code. destruct (p_required p) eqn:E; simpl; [reflexivity|].
  destruct (H p (or_introl eq_refl) E) as (t & ->). reflexivity.
Qed.

Record names_ok (n : name) (ps : list param) : Prop := {
  ok_opname : bad_name (normalized_name n) = false;
  ok_params : existsb bad_name (SELF :: map p_name ps) = false;
  ok_nodup : has_dup (SELF :: map p_name ps) = false;
  ok_lits : lit_defaults ps
}.

Lemma names_ok_no_self n ps : names_ok n ps -> no_self ps.
Proof.
  intros [_ _ H _] p Hp. simpl in H. apply orb_false_iff in H. destruct H as [H _].
  rewrite name_eqb_sym. destruct (name_eqb SELF (p_name p)) eqn:E; [|reflexivity].
  assert (nmem SELF (map p_name ps) = true); [|congruence].
  apply nmem_In. apply name_eqb_eq in E. rewrite E. apply in_map. assumption.
Qed.

Lemma map_pc_name ps : map pc_name (map param_to_code ps) = map p_name ps.
Proof. rewrite map_map. apply map_ext. apply pc_name_param. Qed.

Theorem def_valid_iff n ps :
  names_ok n ps ->
  ((exists s, py_def (to_code n ps) = inr s) <-> well_ordered false ps = true).
Proof.
  intros OK. pose proof (names_ok_no_self _ _ OK) as NS. destruct OK as [O1 O2 O3 O4].
  unfold py_def, to_code. simpl h_name. simpl h_params. rewrite (sig_of_no_self _ NS).
  simpl map. rewrite map_pc_name.
  change (pc_name self_code) with SELF.
  rewrite O1, O2, O3.
  change (req_after_opt false (self_code :: map param_to_code ps))
    with (req_after_opt false (map param_to_code ps)).
  rewrite req_after_opt_spec.
  change (existsb is_bare (self_code :: map param_to_code ps))
    with (existsb is_bare (map param_to_code ps)).
  rewrite (no_bare _ O4). simpl.
  destruct (well_ordered false ps); simpl; split; intros H; try reflexivity; try discriminate.
  - eexists; reflexivity.
  - destruct H as (s & H). discriminate.
Qed.

(* ---------- what the function object shows ---------- *)

Fixpoint nreqs (cs : signature) : nat :=
  match cs with
  | [] => O
  | c :: r => match pc_default c with None => S (nreqs r) | Some _ => nreqs r end
  end.

Lemma length_split cs : length cs = (nreqs cs + length (defaults_of cs))%nat.
Proof.
  induction cs as [|c r IH]; simpl; [reflexivity|].
  destruct (pc_default c); simpl; lia.
Qed.

Definition pview (c : pcode) : name * option dtext := (pc_name c, pc_default c).

Lemma sig_view_all_optional cs : forall i nr,
  (nr <= i)%nat -> req_after_opt true cs = false ->
  sig_view i nr (map pc_name cs) (defaults_of cs) = map pview cs.
Proof.
  induction cs as [|c r IH]; intros i nr L H; simpl in *; [reflexivity|].
  destruct (pc_default c) as [d|] eqn:E; [|discriminate].
  assert (Nat.ltb i nr = false) as -> by (apply Nat.ltb_ge; lia).
  unfold pview at 1. rewrite E. f_equal. apply IH; [lia|assumption].
Qed.

Lemma sig_view_spec cs : forall i,
  req_after_opt false cs = false ->
  sig_view i (i + nreqs cs) (map pc_name cs) (defaults_of cs) = map pview cs.
Proof.
  induction cs as [|c r IH]; intros i H; simpl in *; [reflexivity|].
  destruct (pc_default c) as [d|] eqn:E.
  - assert (N : nreqs r = O).
    { clear -H. induction r as [|c' r IH]; simpl in *; [reflexivity|].
      destruct (pc_default c'); [apply IH; assumption|discriminate]. }
    rewrite N. assert (Nat.ltb i (i + 0) = false) as -> by (apply Nat.ltb_ge; lia).
    unfold pview at 1. rewrite E. f_equal. apply sig_view_all_optional; [lia|assumption].
  - assert (Nat.ltb i (i + S (nreqs r)) = true) as -> by (apply Nat.ltb_lt; lia).
    unfold pview at 1. rewrite E. f_equal.
    replace (i + S (nreqs r))%nat with (S i + nreqs r)%nat by lia. apply IH. assumption.
Qed.

Lemma py_def_inv h s :
  py_def h = inr s ->
  req_after_opt false (h_params h) = false /\
  s = mkSpec (map pc_name (h_params h)) (defaults_of (h_params h)).
Proof.
  unfold py_def.
  destruct (bad_name (h_name h)); simpl; [discriminate|].
  destruct (existsb bad_name (map pc_name (h_params h))); simpl; [discriminate|].
  destruct (has_dup (map pc_name (h_params h))); simpl; [discriminate|].
  destruct (req_after_opt false (h_params h)); simpl; [discriminate|].
  destruct (existsb is_bare (h_params h)); simpl; [discriminate|].
  intros H. inversion H. split; reflexivity.
Qed.

Lemma nreq_spec cs :
  nreq (mkSpec (map pc_name cs) (defaults_of cs)) = nreqs cs.
Proof. unfold nreq. simpl. rewrite map_length. rewrite (length_split cs). lia. Qed.

(* inspect.signature of the bound method: exactly the declared parameters,
   in order, exactly the optional ones defaulted *)
Theorem bound_signature_declared n ps s :
  no_self ps -> py_def (to_code n ps) = inr s ->
  a_args s = SELF :: map p_name ps /\ bound_signature s = map view_of ps.
Proof.
  intros NS H. apply py_def_inv in H. destruct H as [W E].
  unfold to_code in *. simpl h_params in *. rewrite (sig_of_no_self _ NS) in *.
  subst s. split.
  - simpl. f_equal. apply map_pc_name.
  - unfold bound_signature, full_signature. rewrite nreq_spec.
    cbn [a_args a_defaults].
    pose proof (sig_view_spec (self_code :: map param_to_code ps) O W) as SV.
    rewrite Nat.add_0_l in SV. rewrite SV.
    simpl. rewrite map_map. apply map_ext. intros p. unfold pview, view_of. rewrite pc_name_param. reflexivity.
Qed.

(* ---------- required parameters followed by optional ones ---------- *)

Lemma well_ordered_optionals opts :
  (forall p, In p opts -> p_required p = false) -> forall b, well_ordered b opts = true.
Proof.
  induction opts as [|p r IH]; intros H b; simpl; [reflexivity|].
  rewrite (H p (or_introl eq_refl)). apply IH. intros q Hq. apply H. right. assumption.
Qed.

Lemma well_ordered_req_opt reqs opts :
  (forall p, In p reqs -> p_required p = true) ->
  (forall p, In p opts -> p_required p = false) ->
  well_ordered false (reqs ++ opts) = true.
Proof.
  induction reqs as [|p r IH]; intros H1 H2; simpl.
  - apply well_ordered_optionals. assumption.
  - rewrite (H1 p (or_introl eq_refl)). simpl. apply IH; [|assumption].
    intros q Hq. apply H1. right. assumption.
Qed.

Theorem req_opt_signature n reqs opts :
  (forall p, In p reqs -> p_required p = true) ->
  (forall p, In p opts -> p_required p = false) ->
  names_ok n (reqs ++ opts) ->
  exists s, py_def (to_code n (reqs ++ opts)) = inr s /\
    h_name (to_code n (reqs ++ opts)) = normalized_name n /\
    bound_signature s =
      map (fun p => (p_name p, None)) reqs ++
      map (fun p => (p_name p, Some (match p_default p with DLit t => TLit t | DEnum t => TBare t end))) opts.
Proof.
  intros H1 H2 OK.
  destruct (proj2 (def_valid_iff _ _ OK) (well_ordered_req_opt _ _ H1 H2)) as (s & Hs).
  exists s. split; [assumption|]. split; [reflexivity|].
  destruct (bound_signature_declared _ _ _ (names_ok_no_self _ _ OK) Hs) as [_ ->].
  rewrite map_app. f_equal.
  - apply map_ext_in. intros p Hp. apply view_of_required. apply H1. assumption.
  - apply map_ext_in. intros p Hp. unfold view_of, param_to_code. rewrite (H2 p Hp). reflexivity.
Qed.

(* ---------- reflection of the generated function gives the declaration back ---------- *)

Definition decl_view (p : param) : name * bool := (p_name p, p_required p).

Definition is_none {A} (o : option A) : bool := match o with None => true | Some _ => false end.

Lemma reflect_all_optional cs : forall i nr,
  (nr <= i)%nat -> req_after_opt true cs = false ->
  map decl_view (reflect_params i nr (map pc_name cs)) = map (fun c => (pc_name c, is_none (pc_default c))) cs.
Proof.
  induction cs as [|c r IH]; intros i nr L H; simpl in *; [reflexivity|].
  destruct (pc_default c) as [d|] eqn:E; [|discriminate].
  assert (Nat.ltb i nr = false) as -> by (apply Nat.ltb_ge; lia).
  unfold decl_view at 1. simpl. f_equal. apply IH; [lia|assumption].
Qed.

Lemma reflect_spec cs : forall i,
  req_after_opt false cs = false ->
  map decl_view (reflect_params i (i + nreqs cs) (map pc_name cs)) =
  map (fun c => (pc_name c, is_none (pc_default c))) cs.
Proof.
  induction cs as [|c r IH]; intros i H; simpl in *; [reflexivity|].
  destruct (pc_default c) as [d|] eqn:E.
  - assert (N : nreqs r = O).
    { clear -H. induction r as [|c' r IH]; simpl in *; [reflexivity|].
      destruct (pc_default c'); [apply IH; assumption|discriminate]. }
    rewrite N. assert (Nat.ltb i (i + 0) = false) as -> by (apply Nat.ltb_ge; lia).
    unfold decl_view at 1. simpl. f_equal. apply reflect_all_optional; [lia|assumption].
  - assert (Nat.ltb i (i + S (nreqs r)) = true) as -> by (apply Nat.ltb_lt; lia).
    unfold decl_view at 1. simpl. f_equal.
    replace (i + S (nreqs r))%nat with (S i + nreqs r)%nat by lia. apply IH. assumption.
Qed.

Theorem promote_roundtrip n ps s :
  no_self ps -> py_def (to_code n ps) = inr s ->
  map decl_view (promote_spec s) = (SELF, true) :: map decl_view ps.
Proof.
  intros NS H. apply py_def_inv in H. destruct H as [W E].
  unfold to_code in *. simpl h_params in *. rewrite (sig_of_no_self _ NS) in *. subst s.
  unfold promote_spec. rewrite nreq_spec. cbn [a_args].
  pose proof (reflect_spec (self_code :: map param_to_code ps) O W) as SV.
  rewrite Nat.add_0_l in SV. rewrite SV.
  simpl. f_equal. rewrite map_map. apply map_ext. intros p.
  unfold decl_view. rewrite pc_name_param. f_equal.
  unfold param_to_code. destruct (p_required p); reflexivity.
Qed.

(* ---------- reflection of a static class body ---------- *)

Lemma mangle_not_dunder cls n : starts_dunder n = false -> mangle cls n = n.
Proof. unfold mangle. intros ->. reflexivity. Qed.

Definition first_is_self (s : argspec) : bool :=
  match a_args s with a0 :: _ => name_eqb a0 SELF | [] => false end.

Lemma promote_ns_In ns n ps :
  In (n, ps) (promote_ns ns) <->
  exists k s, In (k, n, MFunc s) ns /\ starts_dunder k = false /\ starts_dunder n = false /\
              first_is_self s = true /\ ps = promote_spec s.
Proof.
  induction ns as [|[[k f] m] r IH]; simpl.
  - split; [intros []|]. intros (k & s & [] & _).
  - assert (SK : (exists k0 s, In (k0, n, MFunc s) r /\ starts_dunder k0 = false /\ starts_dunder n = false /\
                      first_is_self s = true /\ ps = promote_spec s) ->
                 exists k0 s, ((k, f, m) = (k0, n, MFunc s) \/ In (k0, n, MFunc s) r) /\ starts_dunder k0 = false /\
                      starts_dunder n = false /\ first_is_self s = true /\ ps = promote_spec s).
    { intros (k0 & s & H & R). exists k0, s. split; [right; assumption|assumption]. }
    assert (SK' : forall (skip : forall s, m = MFunc s -> k = k -> f = n ->
                              starts_dunder k = false -> starts_dunder n = false -> first_is_self s = true -> False),
                 (exists k0 s, ((k, f, m) = (k0, n, MFunc s) \/ In (k0, n, MFunc s) r) /\ starts_dunder k0 = false /\
                      starts_dunder n = false /\ first_is_self s = true /\ ps = promote_spec s) ->
                 exists k0 s, In (k0, n, MFunc s) r /\ starts_dunder k0 = false /\ starts_dunder n = false /\
                      first_is_self s = true /\ ps = promote_spec s).
    { intros skip (k0 & s & [E|H] & R1 & R2 & R3 & R4).
      - inversion E; subst. exfalso. eapply skip; eauto.
      - exists k0, s. tauto. }
    destruct m as [s| |].
    + destruct (starts_dunder k) eqn:Dk; simpl.
      { rewrite IH. split; [apply SK|apply SK']. intros s0 E _ _ D. congruence. }
      destruct (starts_dunder f) eqn:Df; simpl.
      { rewrite IH. split; [apply SK|apply SK']. intros s0 E _ Ef _ D. congruence. }
      destruct (a_args s) as [|a0 rest] eqn:Ea.
      { rewrite IH. split; [apply SK|apply SK']. intros s0 E _ _ _ _ F. inversion E; subst.
        unfold first_is_self in F. rewrite Ea in F. discriminate. }
      destruct (name_eqb a0 SELF) eqn:Es.
      * simpl. rewrite IH. split.
        -- intros [E|H]; [|apply SK; assumption]. inversion E; subst.
           exists k, s. split; [left; reflexivity|]. repeat split; try assumption.
           unfold first_is_self. rewrite Ea. assumption.
        -- intros (k0 & s0 & [E|H] & R1 & R2 & R3 & R4).
           ++ inversion E; subst. left. reflexivity.
           ++ right. exists k0, s0. tauto.
      * rewrite IH. split; [apply SK|apply SK']. intros s0 E _ _ _ _ F. inversion E; subst.
        unfold first_is_self in F. rewrite Ea in F. congruence.
    + rewrite IH. split; [apply SK|apply SK']. intros s0 E. discriminate.
    + rewrite IH. split; [apply SK|apply SK']. intros s0 E. discriminate.
Qed.

(* every def of the class body whose first parameter is self, double
   underscore names excepted, is reflected with the parameters of its
   signature -- and nothing else is *)
Theorem promote_exactly cls b n ps :
  In (n, ps) (promote cls b) <->
  exists s, In (n, MFunc s) b /\ starts_dunder n = false /\ first_is_self s = true /\ ps = promote_spec s.
Proof.
  unfold promote. rewrite promote_ns_In. unfold namespace_of. split.
  - intros (k & s & H & D1 & D2 & F & E).
    apply in_map_iff in H. destruct H as ([n0 m0] & E0 & H0). simpl in E0. inversion E0; subst.
    exists s. tauto.
  - intros (s & H & D & F & E). exists (mangle cls n), s.
    split.
    + apply in_map_iff. exists (n, MFunc s). split; [reflexivity|assumption].
    + rewrite (mangle_not_dunder _ _ D). tauto.
Qed.

(* a private method is stored under a key that does not start with two
   underscores: the reason why the key test alone let it through *)
Lemma mangled_key_passes :
  starts_dunder (mangle (of_string "A") (of_string "__secret")) = false.
Proof. vm_compute. reflexivity. Qed.
