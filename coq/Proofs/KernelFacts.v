(* Basic facts about the kernel model: value equality on objects, membership
   in the raw collection primitives, frame properties of the state setters. *)
From Coq Require Import ZArith List Bool Arith Lia.
From PyecoreV Require Import Lib.PyBase Lib.PyList Model.Kernel Proofs.PyListFacts.
Import ListNotations.
Open Scope nat_scope.

Lemma cell_eqb_spec a b : reflect (a = b) (cell_eqb a b).
Proof.
  destruct a as [a1 a2], b as [b1 b2]. unfold cell_eqb. simpl.
  destruct (Nat.eqb_spec a1 b1); destruct (Nat.eqb_spec a2 b2); simpl; constructor; congruence.
Qed.

Lemma cell_eqb_refl a : cell_eqb a a = true.
Proof. destruct (cell_eqb_spec a a); congruence. Qed.

Lemma upd_same {A} (g : cell -> A) k v : upd g k v k = v.
Proof. unfold upd. rewrite cell_eqb_refl. reflexivity. Qed.

Lemma upd_other {A} (g : cell -> A) k k' v : k <> k' -> upd g k v k' = g k'.
Proof. unfold upd. destruct (cell_eqb_spec k k'); congruence. Qed.

Lemma veqb_obj_r v a : veqb v (VObj a) = true <-> v = VObj a.
Proof.
  destruct v; simpl; split; intros H; try discriminate; try congruence.
  - apply Nat.eqb_eq in H. congruence.
  - inversion H. apply Nat.eqb_refl.
Qed.

Lemma vmem_obj a l : vmem (VObj a) l = true <-> In (VObj a) l.
Proof.
  unfold vmem. induction l as [|y ys IH]; simpl.
  - split; [discriminate | tauto].
  - rewrite orb_true_iff, IH, veqb_obj_r. tauto.
Qed.

Lemma vmem_obj_false a l : vmem (VObj a) l = false <-> ~ In (VObj a) l.
Proof. rewrite <- vmem_obj. destruct (vmem (VObj a) l); split; intros; congruence || tauto. Qed.

Lemma objs_of_In a l : In a (objs_of l) <-> In (VObj a) l.
Proof.
  induction l as [|v vs IH]; simpl; [tauto|].
  destruct v; simpl; rewrite IH; split; intros H; try tauto;
    try (destruct H as [H|H]; [discriminate | tauto]).
  - destruct H as [H|H]; [left; congruence | tauto].
  - destruct H as [H|H]; [left; congruence | tauto].
Qed.

(* at most one occurrence of every object *)
Definition nodup_objs (l : list value) : Prop := NoDup (objs_of l).

Lemma remove_first_obj_In x l :
  nodup_objs l ->
  forall l', remove_first veqb (VObj x) l = Some l' ->
  (forall b, In (VObj b) l' <-> In (VObj b) l /\ b <> x) /\ nodup_objs l'.
Proof.
  unfold nodup_objs. induction l as [|v vs IH]; simpl; intros ND l' H; [discriminate|].
  destruct (veqb v (VObj x)) eqn:E.
  - apply veqb_obj_r in E. subst v. inversion H; subst l'. simpl in ND.
    inversion ND as [|? ? Hn ND']; subst. split; [|assumption].
    intros b. split.
    + intros Hb. split; [right; exact Hb|]. intros ->. apply Hn. apply objs_of_In. exact Hb.
    + intros [[Hb|Hb] Hne]; [congruence | exact Hb].
  - destruct (remove_first veqb (VObj x) vs) as [r|] eqn:Er; [|discriminate].
    inversion H; subst l'.
    assert (ND' : NoDup (objs_of vs)).
    { destruct v; simpl in ND; try exact ND. inversion ND; assumption. }
    destruct (IH ND' r eq_refl) as [Hin Hnd]. split.
    + intros b. simpl. rewrite Hin. split.
      * intros [Hv|[Hb Hne]]; [|tauto]. split; [left; exact Hv|].
        intros ->. subst v. unfold veqb in E; simpl in E. rewrite Nat.eqb_refl in E. discriminate.
      * intros [[Hv|Hb] Hne]; tauto.
    + destruct v; simpl; try exact Hnd. simpl in ND. inversion ND as [|? ? Hn ?]; subst.
      constructor; [|exact Hnd]. intros Ho. apply Hn. apply objs_of_In. apply objs_of_In in Ho.
      apply Hin in Ho. tauto.
Qed.

Lemma raw_remove_obj_In x l :
  nodup_objs l -> In (VObj x) l ->
  (forall b, In (VObj b) (raw_remove (VObj x) l) <-> In (VObj b) l /\ b <> x)
  /\ nodup_objs (raw_remove (VObj x) l).
Proof.
  intros ND Hin. unfold raw_remove.
  destruct (remove_first veqb (VObj x) l) as [l'|] eqn:E.
  - exact (remove_first_obj_In x l ND l' E).
  - exfalso. clear ND. induction l as [|v vs IH]; simpl in *; [tauto|].
    destruct (veqb v (VObj x)) eqn:Ev; [discriminate|].
    destruct (remove_first veqb (VObj x) vs); [discriminate|].
    destruct Hin as [Hv|Hv]; [subst v; unfold veqb in Ev; simpl in Ev; rewrite Nat.eqb_refl in Ev; discriminate|].
    exact (IH Hv eq_refl).
Qed.

Lemma objs_of_app l1 l2 : objs_of (l1 ++ l2) = objs_of l1 ++ objs_of l2.
Proof.
  induction l1 as [|v vs IH]; simpl; [reflexivity|]. destruct v; simpl; rewrite ?IH; reflexivity.
Qed.

Lemma raw_append_obj_In x b l :
  (In (VObj b) (raw_append true (VObj x) l) <-> In (VObj b) l \/ b = x).
Proof.
  unfold raw_append. simpl. destruct (vmem (VObj x) l) eqn:E.
  - apply vmem_obj in E. split; [tauto|]. intros [H|H]; [assumption | subst b; assumption].
  - rewrite in_app_iff. simpl. split.
    + intros [H|[H|[]]]; [tauto | right; congruence].
    + intros [H|H]; [tauto | subst b; tauto].
Qed.

Lemma raw_append_nodup x l :
  nodup_objs l -> nodup_objs (raw_append true (VObj x) l).
Proof.
  unfold raw_append, nodup_objs. simpl. intros ND. destruct (vmem (VObj x) l) eqn:E; [exact ND|].
  rewrite objs_of_app. simpl. apply vmem_obj_false in E.
  assert (Hn : ~ In x (objs_of l)) by (rewrite objs_of_In; exact E).
  clear E. induction (objs_of l) as [|y ys IH]; simpl.
  - constructor; [tauto | constructor].
  - inversion ND; subst. constructor.
    + rewrite in_app_iff. simpl. intros [H|[H|[]]]; [tauto | subst; apply Hn; left; reflexivity].
    + apply IH; [assumption | intros H; apply Hn; right; exact H].
Qed.

Definition sumbool_of_bool_cell (k k' : cell) : {k = k'} + {k <> k'}.
Proof. destruct (cell_eqb_spec k k'); [left | right]; assumption. Defined.

Lemma obj_of_Some' v q : obj_of v = Some q -> v = VObj q.
Proof. destruct v; simpl; intros H; try discriminate; congruence. Qed.
