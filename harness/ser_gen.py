"""Generators, renderers and canonical dump shared by the serialization checks
(C08 XMI, C09 JSON; importable by C10/C14).  Import has no side effect: pyecore
is imported lazily, by the functions that render or observe.

Description languages (all JSON-able, so that a replay file is self-contained)

  metamodel  mm = {'name','nsURI','nsPrefix',
                   'enums':   [{'name', 'literals': [str]}],
                   'classes': [{'name','abstract': bool,'supers': [class name],
                                'features': [feature]}]}
  feature    {'kind': 'attr', 'name','type': data type or enum name,'many','unique','iD',
              optional 'default': tagged value (EAttribute(default_value=...)),
              optional 'default_literal': text (EAttribute(defaultValueLiteral=...)) with 'default_literal_value': the tagged value it denotes}
             {'kind': 'ref',  'name','type': class name,'many','unique','containment',
              'opposite': name of the opposite reference (declared in class `type`) or None}
  model      md = {'roots': [oid], 'objs': {str(oid): {'cls': class name, 'sets': [[feature name, v]]}}}
             `sets` is a build script executed in order (object by object, in oid order):
               attribute, single : tagged value            many : list of tagged values ([] = touched, left empty)
               reference, single : oid                     many : list of oids
             the container end of a containment pair is never written: pyecore maintains it.
  value      ['s', str] ['i', int] ['b', bool] ['f', repr(float)] ['D', str(Decimal)]
             ['d', isoformat] ['e', literal name] ['n'] (None)

`dump(resource)` is the notion of isomorphism of C08/C09: roots in order; per
object its class name, every attribute value with a Python type tag, containment
children per feature in order (nested), reference targets in order as canonical
paths (root index, then (feature, position) steps -- computed here, not taken
from eURIFragment).  Nothing private of pyecore is read.
"""
import datetime as _dt
import decimal as _dec
import math

DATATYPES = ['EString', 'EInt', 'EBoolean', 'EDouble', 'EFloat', 'ELong', 'EBigInteger',
             'EBigDecimal', 'EDate', 'EChar']
ENUM = {'name': 'Color', 'literals': ['RED', 'GREEN', 'BLUE']}

# ---------------------------------------------------------------- value alphabets
# every XML 1.0 legal oddity we could think of (Char ::= #x9 | #xA | #xD | [#x20-#xD7FF] | [#xE000-#xFFFD] | [#x10000-#x10FFFF])
XML_STRINGS = [
    '', ' ', 'a b', ' lead', 'trail ', '  ', 'a', 'b',
    'abc', 'a\tb', '\t', 'a\nb', '\n', 'x\r\ny', '\r', '<&>"\'',
    '&amp;', '<![CDATA[x]]>', ']]>', '<!--c-->', '&#10;', "it's", '"q"', '\xe9t\xe9',
    '\xdf', '\u4e2d\u6587', '\U0001f600', '\ud7ff', '\ue000', '\ufffd', '\xa0', 'a\xa0b',
    '\x85', 'a\x85b', '\u2028', 'a\u2028b', '\u2029', '\u3000', 'a\u2003b', '\u200b',
    '\ufeff', '[]', '[', 'None', 'null', 'true', '0', '-1',
    '1.5', '#', '/', '//@x.0', '#//', 'a#b', 'a/b', '@',
    '%', '$ref', 'xxxxxxxxxxxxxxxxxxxxxxxxxxxxxxxxxxxxxxxx', 'a  b', 'a \t b', '{', '}', ',',
    'a,b', ';', '\\', '\\n',
]
# legal in JSON but not in XML 1.0
JSON_ONLY_STRINGS = [
    '\x00', 'a\x00b', '\x01', '\x0b', '\x0c', '\x1c', '\x1d', '\x1e',
    '\x1f', '\x7f', '\ufffe', '\uffff', '\x08',
]
XML_CHARS = [
    'a', 'Z', '0', ' ', '\t', '\n', '<', '&',
    '"', "'", '\xe9', '\xa0', '\x85', '\u2028', '\U0001f600', '\u3000',
    '#', '/',
]
# the values on which the attribute-vs-elements decision of the XMI writer turns
CRITICAL_STRINGS = ['', ' ', '  ', '\t', '\n', 'a b', ' a', 'a ', '\xa0', 'a\xa0b', '\u2028', 'ab']
INTS = [0, 1, -1, 2, 7, 42, -42, 2 ** 31 - 1, -2 ** 31, 2 ** 31, 2 ** 63 - 1, -2 ** 63, 2 ** 64, 10 ** 30, -10 ** 30, 2 ** 100 + 1]
FLOATS = [0.0, 1.0, -1.0, 1.5, -2.25, 0.1, 1e300, -1e300, 1e-300, 5e-324, 1.7976931348623157e308, 123456789.123456789,
          1e16, 1e22, 1e-7, 3.141592653589793, float('inf'), float('-inf'), -0.0, 2.0 ** 53, 1 / 3]
DECIMALS = ['0', '1', '-1', '1.10', '1.1', '0.001', '-0.5', '1E+3', '1E-7', '123456789012345678901234567890.123456789',
            '0E-10', '0.0', '1E+30', '-12.340', 'Infinity', '-Infinity']
DATES = ['2020-01-02T03:04:05', '2020-01-02T03:04:05.000006', '1999-12-31T23:59:59.999999', '2000-02-29T00:00:00',
         '1000-01-01T00:00:00', '9999-12-31T23:59:59', '2021-06-15T12:00:00+00:00', '2021-06-15T12:00:00+02:00',
         '2021-06-15T12:00:00.123456-05:30', '1970-01-01T00:00:00+00:00', '2024-02-29T23:59:59.5+14:00']
ID_VALUES = ['id1', 'x', 'k-2', 'idA', 'n_3', 'Z9', 'q.4', 'id:5', 'u6', 'w7', 'e\xe9', 'v8', 'p9', 'id10', 'id11', 'id12']
ODD_ID_VALUES = [
    '', ' ', 'a b', 'a\tb', '/', '/0', '//@x', '#x',
    'a#b', '0', '\xa0',
]


def _pick(rng, xs):
    return xs[rng.randrange(len(xs))]


def random_code_point(rng, fmt):
    """XML 1.0 Char for 'xmi'; any code point (lone surrogates included) for 'json'"""
    r = rng.random()
    if fmt != 'xmi' and r < 0.15:
        return rng.choice([rng.randrange(0, 32), rng.randrange(0xd800, 0xe000), 0xfffe, 0xffff, 0x7f])
    if r < 0.4:
        return rng.randrange(0x20, 0x7f)
    if r < 0.6:
        return rng.choice([9, 10, 13, 0x20, 0x85, 0xa0, 0x1680, 0x2000, 0x200a, 0x2028, 0x2029, 0x202f, 0x205f, 0x3000])
    if r < 0.8:
        return rng.randrange(0xa0, 0xd800)
    if r < 0.9:
        return rng.randrange(0xe000, 0xfffe)
    return rng.randrange(0x10000, 0x110000)


def gen_value(rng, typ, mm, fmt='xmi'):
    """a tagged value of the data type's domain"""
    if typ == 'EString':
        if rng.random() < 0.25:
            return ['s', _pick(rng, CRITICAL_STRINGS)]
        if rng.random() < 0.1:
            cps = [random_code_point(rng, fmt) for _ in range(rng.randrange(1, 5))]
            # a high surrogate directly followed by a low one IS an astral character for JSON (json.dumps/loads
            # merges the pair): such a string has no JSON text of its own, whatever the library does
            for i in range(len(cps) - 1, 0, -1):
                if 0xd800 <= cps[i - 1] < 0xdc00 <= cps[i] < 0xe000:
                    cps.insert(i, 0x78)
            return ['s', ''.join(chr(c) for c in cps)]
        pool = XML_STRINGS if fmt == 'xmi' or rng.random() < 0.8 else JSON_ONLY_STRINGS
        if rng.random() < 0.15:      # composed
            return ['s', _pick(rng, pool) + _pick(rng, pool)]
        return ['s', _pick(rng, pool)]
    if typ == 'EChar':
        return ['s', _pick(rng, XML_CHARS)]
    if typ in ('EInt', 'ELong', 'EBigInteger'):
        return ['i', _pick(rng, INTS) if rng.random() < 0.7 else rng.randrange(-10 ** 6, 10 ** 6)]
    if typ == 'EBoolean':
        return ['b', rng.random() < 0.5]
    if typ in ('EDouble', 'EFloat'):
        return ['f', repr(_pick(rng, FLOATS) if rng.random() < 0.7 else rng.uniform(-1e6, 1e6))]
    if typ == 'EBigDecimal':
        return ['D', _pick(rng, DECIMALS)]
    if typ == 'EDate':
        return ['d', _pick(rng, DATES)]
    if any(e['name'] == typ for e in mm['enums']):
        e = next(e for e in mm['enums'] if e['name'] == typ)
        return ['e', _pick(rng, e['literals'])]
    raise ValueError(typ)


def type_default(typ, mm):
    """the default value of the data type itself (EDataType.default_value), tagged"""
    if typ in ('EInt', 'ELong'):
        return ['i', 0]
    if typ == 'EBoolean':
        return ['b', False]
    if typ in ('EDouble', 'EFloat'):
        return ['f', '0.0']
    for e in mm['enums']:
        if e['name'] == typ:
            return ['e', e['literals'][0]]
    return ['n']


def literal_of(v):
    """a text that the data type's from_string reads as the tagged value v (for defaultValueLiteral)"""
    t = v[0]
    if t == 'b':
        return 'true' if v[1] else 'false'
    if t == 'i':
        return str(v[1])
    return v[1]          # s, f (repr), D, d (ISO format), e (literal name)


def declared_default(f):
    """what an untouched single-valued attribute reads as, when the description declares it (else None): the
    literal wins over the explicit default value (EAttribute.get_default_value)"""
    if f.get('default_literal') is not None:
        return f['default_literal_value']
    return f.get('default')


def value_class(v):
    """coarse class of a tagged value (used in failure signatures)"""
    if v is None or v[0] == 'n':
        return 'None'
    t = v[0]
    if t == 's':
        s = v[1]
        if s == '':
            return 'empty-string'
        if s.isspace():
            return 'whitespace-only'
        if any(c.isspace() for c in s):
            return 'contains-whitespace'
        if any(ord(c) < 32 or ord(c) in (0x7f, 0xfffe, 0xffff) for c in s):
            return 'control-char'
        if any(c in '<>&"\'' for c in s):
            return 'markup-char'
        if any(ord(c) > 127 for c in s):
            return 'non-ascii'
        return 'plain-string'
    if t == 'i':
        return 'int-huge' if abs(v[1]) >= 2 ** 63 else ('int-negative' if v[1] < 0 else 'int')
    if t == 'f':
        f = float(v[1])
        return 'float-nonfinite' if math.isinf(f) or math.isnan(f) else 'float'
    if t == 'd':
        return 'date-aware' if ('+' in v[1][10:] or '-' in v[1][10:]) else 'date-naive'
    return {'b': 'bool', 'D': 'decimal', 'e': 'enum-literal'}[t]


# ---------------------------------------------------------------- metamodel generator
def all_features(mm, cname, _seen=None):
    """features visible on class cname (own + inherited), each once, supertypes first"""
    seen = _seen if _seen is not None else set()
    out = []
    c = next(c for c in mm['classes'] if c['name'] == cname)
    for s in c['supers']:
        for f in all_features(mm, s, seen):
            out.append(f)
    if cname not in seen:
        seen.add(cname)
        out.extend(c['features'])
    return out


def supers_closure(mm):
    sup = {}

    def go(n):
        if n in sup:
            return sup[n]
        c = next(c for c in mm['classes'] if c['name'] == n)
        s = set()
        for p in c['supers']:
            s.add(p)
            s |= go(p)
        sup[n] = s
        return s
    for c in mm['classes']:
        go(c['name'])
    return sup


def concrete_subtypes(mm, cname):
    sup = supers_closure(mm)
    return [c['name'] for c in mm['classes'] if not c['abstract'] and (c['name'] == cname or cname in sup[c['name']])]


def find_feature(mm, cname, fname):
    return next((f for f in all_features(mm, cname) if f['name'] == fname), None)


def owner_class(mm, fname):
    return next(c['name'] for c in mm['classes'] for f in c['features'] if f['name'] == fname)


def gen_metamodel(rng, serial=0):
    n = rng.randrange(3, 7)
    names = [f'K{i}' for i in range(n)]
    classes = []
    abstract_i = rng.randrange(0, n - 1)          # an abstract class that has at least one concrete subclass
    for i, nm in enumerate(names):
        supers = []
        if i > 0:
            if i == abstract_i + 1:
                supers.append(names[abstract_i])
            for j in range(i):
                if names[j] not in supers and rng.random() < (0.25 if len(supers) == 0 else 0.1):
                    supers.append(names[j])
        classes.append({'name': nm, 'abstract': i == abstract_i, 'supers': supers, 'features': []})
    mm = {'name': f'pkg{serial}', 'nsURI': f'http://verif.example/ser/{serial}', 'nsPrefix': f'p{serial}',
          'enums': [dict(ENUM)], 'classes': classes}
    k = 0
    sup = supers_closure(mm)
    has_id = set()
    types = DATATYPES + [ENUM['name']]
    rng_types = list(types)
    rng.shuffle(rng_types)
    for c in classes:
        # an id attribute on some classes (at most one along any inheritance path)
        if rng.random() < 0.35 and not (sup[c['name']] & has_id) and \
                not any(c['name'] in sup[o] and o in has_id for o in sup):
            # (ids are mostly strings; an EInt id exercises the text form of id references, and the value 0 the
            #  "equal to the default" corner of save)
            c['features'].append({'kind': 'attr', 'name': f'id{k}', 'type': 'EString' if rng.random() < 0.7 else 'EInt',
                                  'many': False, 'unique': True, 'iD': True})
            has_id.add(c['name'])
            k += 1
        for _ in range(rng.randrange(1, 5)):
            typ = rng_types[k % len(rng_types)] if rng.random() < 0.6 else _pick(rng, types)
            many = rng.random() < 0.45
            feat = {'kind': 'attr', 'name': f'a{k}', 'type': typ, 'many': many,
                    'unique': (rng.random() < 0.5) if many else True, 'iD': False}
            if not many:
                # declared defaults: an explicit default_value, a defaultValueLiteral, or both (the literal wins)
                r = rng.random()
                if r < 0.18 or 0.36 <= r < 0.42:
                    feat['default'] = gen_value(rng, typ, mm)
                if 0.18 <= r < 0.42:
                    dv = gen_value(rng, typ, mm)
                    feat['default_literal'] = literal_of(dv)
                    feat['default_literal_value'] = dv
            c['features'].append(feat)
            k += 1
    # references
    for c in classes:
        for _ in range(rng.randrange(1, 4)):
            tgt = _pick(rng, names)
            shape = rng.random()
            many = rng.random() < 0.55
            if shape < 0.35:        # containment, sometimes with a container end
                f = {'kind': 'ref', 'name': f'c{k}', 'type': tgt, 'many': many, 'unique': True,
                     'containment': True, 'opposite': None}
                k += 1
                if rng.random() < 0.4:
                    g = {'kind': 'ref', 'name': f'p{k}', 'type': c['name'], 'many': False, 'unique': True,
                         'containment': False, 'opposite': f['name']}
                    k += 1
                    f['opposite'] = g['name']
                    next(x for x in classes if x['name'] == tgt)['features'].append(g)
                c['features'].append(f)
            elif shape < 0.65:      # opposite pair, every multiplicity pairing
                many2 = rng.random() < 0.5
                f = {'kind': 'ref', 'name': f'r{k}', 'type': tgt, 'many': many, 'unique': True,
                     'containment': False, 'opposite': f'q{k + 1}'}
                g = {'kind': 'ref', 'name': f'q{k + 1}', 'type': c['name'], 'many': many2, 'unique': True,
                     'containment': False, 'opposite': f['name']}
                k += 2
                c['features'].append(f)
                next(x for x in classes if x['name'] == tgt)['features'].append(g)
            else:                   # plain reference; a many-valued one may be non-unique
                c['features'].append({'kind': 'ref', 'name': f'r{k}', 'type': tgt, 'many': many,
                                      'unique': (rng.random() < 0.6) if many else True,
                                      'containment': False, 'opposite': None})
                k += 1
    # make sure something can contain something: at least one containment reference to a class with concrete subtypes
    if not any(f['kind'] == 'ref' and f['containment'] for c in classes for f in c['features']):
        src = next(c for c in classes if not c['abstract'])
        src['features'].append({'kind': 'ref', 'name': f'c{k}', 'type': _pick(rng, names), 'many': True,
                                'unique': True, 'containment': True, 'opposite': None})
    return mm


# ---------------------------------------------------------------- model generator
def gen_model(rng, mm, fmt='xmi', size=None, odd_ids=False):
    """a well-formed model: containment forest with 1-3 roots, references inside the forest"""
    concrete = [c['name'] for c in mm['classes'] if not c['abstract']]
    nroots = _pick(rng, [1, 1, 1, 2, 2, 3])
    budget = size if size is not None else rng.randrange(1, 11)
    objs = {}
    order = []

    def new(cls):
        oid = len(objs)
        objs[str(oid)] = {'cls': cls, 'sets': []}
        order.append(oid)
        return oid
    roots = [new(_pick(rng, concrete)) for _ in range(nroots)]
    # containment: grow the forest breadth first
    children = {}           # (oid, fname) -> [oids]
    frontier = list(roots)
    guard = 0
    while frontier and len(objs) < budget + nroots and guard < 200:
        guard += 1
        p = frontier.pop(rng.randrange(len(frontier)))
        cfeats = [f for f in all_features(mm, objs[str(p)]['cls']) if f['kind'] == 'ref' and f['containment']]
        rng.shuffle(cfeats)
        for f in cfeats:
            subs = concrete_subtypes(mm, f['type'])
            if not subs or rng.random() < 0.25:
                continue
            cnt = rng.randrange(1, 4) if f['many'] else 1
            kids = []
            for _ in range(cnt):
                if len(objs) >= budget + nroots:
                    break
                kids.append(new(_pick(rng, subs)))
            if kids:
                children[(p, f['name'])] = kids
                frontier.extend(kids)
    # the build script of every object
    used_ids = set()
    idpool = list(ID_VALUES)
    if rng.random() < 0.5:
        # id values that look like qualified names over DECLARED namespace prefixes (the package's own, xmi, xsi)
        idpool += [f"{mm['nsPrefix']}:q{j}" for j in range(3)] + ['xmi:peake', 'xsi:w', f"{mm['nsPrefix']}:Type"]
    rng.shuffle(idpool)
    taken11 = {}            # (fname) -> set of targets already taken by a to-one opposite
    for oid in order:
        o = objs[str(oid)]
        feats = all_features(mm, o['cls'])
        script = []
        for f in feats:
            if f['kind'] == 'attr':
                if f['iD']:
                    r = rng.random()
                    if r < 0.15:
                        continue                    # unset id
                    if f['type'] == 'EInt':
                        # (ids are unique in a document in their TEXT form, whatever their type)
                        v = next(x for x in [0, 7, -3, 12, 100 + oid, 1000 + oid] if str(x) not in used_ids) \
                            if rng.random() < 0.6 else 2000 + oid
                        used_ids.add(str(v))
                        script.append([f['name'], ['i', v]])
                        continue
                    if odd_ids and r < 0.35:
                        v = _pick(rng, ODD_ID_VALUES)
                    else:
                        v = idpool.pop() if idpool else f'gen{oid}'
                    if v in used_ids:
                        v = f'{v}_{oid}'
                    used_ids.add(v)
                    script.append([f['name'], ['s', v]])
                    continue
                r = rng.random()
                if r < 0.2:
                    continue                        # untouched
                if f['many']:
                    if r < 0.3:
                        script.append([f['name'], []])      # touched, left empty
                        continue
                    cnt = _pick(rng, [1, 1, 2, 2, 3, 4])
                    vals = []
                    for _ in range(cnt):
                        if rng.random() < 0.08:
                            vals.append(['n'])
                        elif vals and not f['unique'] and rng.random() < 0.25:
                            vals.append(list(_pick(rng, vals)))     # a duplicate
                        elif rng.random() < 0.1 and type_default(f['type'], mm) != ['n']:
                            vals.append(type_default(f['type'], mm))
                        else:
                            vals.append(gen_value(rng, f['type'], mm, fmt))
                    script.append([f['name'], vals])
                else:
                    if r < 0.45:
                        # values on which "is it the default?" turns: None, the default of the data type, the
                        # declared default (explicit value / literal), each of them also when another one is declared
                        pool = [['n'], type_default(f['type'], mm)]
                        if f.get('default') is not None:
                            pool.append(list(f['default']))
                        if f.get('default_literal') is not None:
                            pool.append(list(f['default_literal_value']))
                        script.append([f['name'], _pick(rng, pool)])
                    else:
                        v = gen_value(rng, f['type'], mm, fmt)
                        if v[0] == 'e' and rng.random() < 0.15:
                            v = ['s', v[1]]             # an enumeration value given by name (C03 accepts it)
                        script.append([f['name'], v])
            else:
                if f['containment']:
                    kids = children.get((oid, f['name']))
                    if kids:
                        script.append([f['name'], list(kids) if f['many'] else kids[0]])
                    elif f['many'] and rng.random() < 0.15:
                        script.append([f['name'], []])
                    continue
                if f['opposite'] and find_feature(mm, f['type'], f['opposite'])['containment']:
                    continue                        # container end: maintained by pyecore
                if rng.random() < 0.3:
                    continue
                cands = [x for x in order if objs[str(x)]['cls'] in concrete_subtypes(mm, f['type'])]
                opp = find_feature(mm, f['type'], f['opposite']) if f['opposite'] else None
                if opp is not None and not opp['many']:
                    # a target has one partner only: do not steal (keeps the script = the state)
                    t = taken11.setdefault(f['name'], set()) | taken11.setdefault(opp['name'] + '<', set())
                    cands = [x for x in cands if x not in t]
                if f['many']:
                    if not cands:
                        if rng.random() < 0.3:
                            script.append([f['name'], []])
                        continue
                    cnt = min(len(cands), _pick(rng, [1, 2, 2, 3, 4])) if f['unique'] else _pick(rng, [1, 2, 3, 4])
                    if f['unique']:
                        vals = rng.sample(cands, cnt)
                    else:
                        vals = [_pick(rng, cands) for _ in range(cnt)]
                    script.append([f['name'], vals])
                    if opp is not None and not opp['many']:
                        taken11[f['name']].update(vals)
                else:
                    if not cands:
                        continue
                    if rng.random() < 0.1:
                        script.append([f['name'], None])
                        continue
                    v = _pick(rng, cands)
                    script.append([f['name'], v])
                    if opp is not None and not opp['many']:
                        taken11[f['name']].add(v)
                        taken11.setdefault(f['name'] + '<', set()).add(oid)
        rng.shuffle(script)
        o['sets'] = script
    return {'roots': roots, 'objs': objs}


# ---------------------------------------------------------------- rendering with pyecore's dynamic API
class Built:
    """a metamodel description rendered as a dynamic EPackage"""

    def __init__(self, mm):
        from pyecore import ecore as E
        self.mm = mm
        self.E = E
        self.pkg = E.EPackage(mm['name'], nsURI=mm['nsURI'], nsPrefix=mm['nsPrefix'])
        self.enums = {}
        self.classes = {}
        self.features = {}
        for e in mm['enums']:
            en = E.EEnum(e['name'], literals=list(e['literals']))
            self.enums[e['name']] = en
            self.pkg.eClassifiers.append(en)
        for c in mm['classes']:
            k = E.EClass(c['name'], abstract=c['abstract'])
            self.classes[c['name']] = k
            self.pkg.eClassifiers.append(k)
        for c in mm['classes']:
            k = self.classes[c['name']]
            for s in c['supers']:
                k.eSuperTypes.append(self.classes[s])
        for c in mm['classes']:
            k = self.classes[c['name']]
            for f in c['features']:
                if f['kind'] == 'attr':
                    t = self.enums.get(f['type']) or getattr(E, f['type'])
                    kw = {}
                    if f.get('default') is not None:
                        kw['default_value'] = self.pyvalue(f['default'], f['type'])
                    if f.get('default_literal') is not None:
                        kw['defaultValueLiteral'] = f['default_literal']
                    a = E.EAttribute(f['name'], t, upper=-1 if f['many'] else 1, unique=f['unique'],
                                     iD=bool(f.get('iD')), **kw)
                    self.features[f['name']] = a
                    k.eStructuralFeatures.append(a)
                else:
                    r = E.EReference(f['name'], self.classes[f['type']], upper=-1 if f['many'] else 1,
                                     unique=f['unique'], containment=f['containment'])
                    self.features[f['name']] = r
                    k.eStructuralFeatures.append(r)
        for c in mm['classes']:
            for f in c['features']:
                if f['kind'] == 'ref' and f['opposite'] and self.features[f['name']].eOpposite is None:
                    self.features[f['name']].eOpposite = self.features[f['opposite']]

    def new_rset(self):
        from pyecore.resources import ResourceSet
        rset = ResourceSet()
        rset.metamodel_registry[self.mm['nsURI']] = self.pkg
        return rset

    def pyvalue(self, v, ftype):
        if v is None or v[0] == 'n':
            return None
        t = v[0]
        if t in ('s', 'i', 'b'):
            return v[1]
        if t == 'f':
            return float(v[1])
        if t == 'D':
            return _dec.Decimal(v[1])
        if t == 'd':
            return _dt.datetime.fromisoformat(v[1])
        if t == 'e':
            return self.enums[ftype].getEEnumLiteral(v[1])
        raise ValueError(v)


def build_model(built, md, resource=None):
    """execute the build script; returns {oid: EObject}.  Roots are appended to `resource` (if given) in order."""
    mm = built.mm
    inst = {}
    for k in sorted(md['objs'], key=int):
        inst[int(k)] = built.classes[md['objs'][k]['cls']]()
    for k in sorted(md['objs'], key=int):
        o = md['objs'][k]
        x = inst[int(k)]
        for fname, v in o['sets']:
            f = find_feature(mm, o['cls'], fname)
            if f is None:
                continue
            if f['kind'] == 'attr':
                if f['many']:
                    # extend([]) marks the feature as set and leaves it empty ("touched")
                    x.eGet(fname).extend([built.pyvalue(e, f['type']) for e in v])
                else:
                    x.eSet(fname, built.pyvalue(v, f['type']))
            else:
                if f['many']:
                    x.eGet(fname).extend([inst[e] for e in v if e in inst])
                else:
                    if v is None:
                        x.eSet(fname, None)
                    elif v in inst:
                        x.eSet(fname, inst[v])
    if resource is not None:
        for r in md['roots']:
            if r in inst:
                resource.append(inst[r])
    return inst


# ---------------------------------------------------------------- canonical dump
def tag_value(v):
    """Python value -> tagged, canonical for Python equality within one type, type tag kept"""
    from pyecore.ecore import EEnumLiteral
    if v is None:
        return ['n']
    if isinstance(v, bool):
        return ['b', v]
    if isinstance(v, int):
        return ['i', v]
    if isinstance(v, float):
        if v != v:
            return ['f', 'nan']
        return ['f', repr(v + 0.0 if v != 0 else 0.0)]
    if isinstance(v, str):
        return ['s', v]
    if isinstance(v, _dec.Decimal):
        if not v.is_finite():
            return ['D', str(v)]
        sign, digits, exp = v.as_tuple()
        digits = list(digits)
        while len(digits) > 1 and digits[-1] == 0:
            digits.pop()
            exp += 1
        if digits == [0]:
            return ['D', '0']
        return ['D', ('-' if sign else '') + ''.join(map(str, digits)) + 'E' + str(exp)]
    if isinstance(v, _dt.datetime):
        if v.tzinfo is not None and v.utcoffset() is not None:
            return ['d', 'aware', v.astimezone(_dt.timezone.utc).isoformat()]
        return ['d', 'naive', v.isoformat()]
    if isinstance(v, EEnumLiteral):
        return ['e', v.name]
    return ['?', type(v).__name__, repr(v)]


def _is_proxy(x):
    from pyecore.ecore import EProxy
    return isinstance(x, EProxy)


def walk(resource):
    """[(path, obj)] of the containment forest, pre-order; path = (root index, (feature, position)...)"""
    out = []

    def go(o, path):
        out.append((path, o))
        for f in sorted(o.eClass.eAllStructuralFeatures(), key=lambda f: f.name):
            if f.is_reference and f.containment and not f.derived:
                v = o.eGet(f)
                kids = list(v) if f.many else ([v] if v is not None else [])
                for i, c in enumerate(kids):
                    go(c, path + ((f.name, i),))
    for i, r in enumerate(resource.contents):
        go(r, (i,))
    return out


def dump(resource, resolve_proxies=True, enum_as_name=True):
    objs = walk(resource)
    paths = {}
    for p, o in objs:
        paths.setdefault(o, p)           # EObject hash/eq is identity; a resolved proxy hashes/compares as its target

    def target(t):
        if t is None:
            return None
        if _is_proxy(t):
            if not resolve_proxies:
                return ['proxy']
            try:
                t.force_resolve()
            except Exception as e:      # noqa
                return ['unresolvable-proxy', type(e).__name__]
        try:
            p = paths.get(t)
        except Exception as e:          # noqa
            return ['unhashable', type(e).__name__]
        return ['path'] + _jpath(p) if p is not None else ['outside-resource']

    def one(p, o):
        d = {'cls': o.eClass.name, 'attrs': {}, 'refs': {}, 'children': {}}
        for f in sorted(o.eClass.eAllStructuralFeatures(), key=lambda f: f.name):
            if f.derived:
                continue
            v = o.eGet(f)
            if f.is_attribute:
                if f.many:
                    d['attrs'][f.name] = [_enum(tag_value(x), f, enum_as_name) for x in v]
                else:
                    d['attrs'][f.name] = _enum(tag_value(v), f, enum_as_name)
            elif f.containment:
                kids = list(v) if f.many else ([v] if v is not None else [])
                d['children'][f.name] = [one(p + ((f.name, i),), c) for i, c in enumerate(kids)]
            else:
                if f.many:
                    d['refs'][f.name] = [target(x) for x in v]
                else:
                    d['refs'][f.name] = target(v)
        return d
    return {'roots': [one((i,), r) for i, r in enumerate(resource.contents)]}


def _enum(tv, f, enum_as_name):
    """an enumeration value given by name denotes the literal of that name"""
    from pyecore.ecore import EEnum
    if enum_as_name and tv[0] == 's' and isinstance(f.eType, EEnum):
        return ['e', tv[1]]
    return tv


def _jpath(p):
    return [p[0]] + [[s[0], s[1]] for s in p[1:]]


def diff_dumps(a, b):
    """first differences between two dumps: [(clause, path, feature name, a-value, b-value)]"""
    out = []
    ra, rb = a['roots'], b['roots']
    if len(ra) != len(rb):
        out.append(('roots', [], None, len(ra), len(rb)))

    def go(x, y, path):
        if x['cls'] != y['cls']:
            out.append(('class', path, None, x['cls'], y['cls']))
            return
        for n in x['attrs']:
            if x['attrs'][n] != y['attrs'].get(n):
                out.append(('attribute', path, n, x['attrs'][n], y['attrs'].get(n)))
        for n in x['refs']:
            if x['refs'][n] != y['refs'].get(n):
                out.append(('reference', path, n, x['refs'][n], y['refs'].get(n)))
        for n in x['children']:
            cx, cy = x['children'][n], y['children'].get(n, [])
            if len(cx) != len(cy) or [c['cls'] for c in cx] != [c['cls'] for c in cy]:
                out.append(('containment', path, n, [c['cls'] for c in cx], [c['cls'] for c in cy]))
            for i, (u, v) in enumerate(zip(cx, cy)):
                if u['cls'] == v['cls']:
                    go(u, v, path + [[n, i]])
    for i, (x, y) in enumerate(zip(ra, rb)):
        go(x, y, [i])
    return out


# ---------------------------------------------------------------- generic C01-C03 oracles on a loaded resource
def wf_problems(resource, mm, unique_clause=False):
    """[(clause, feature name or None, text)] : the C01-C03 statements evaluated on the objects of `resource`
    through the public API, from the metamodel description alone."""
    from pyecore.ecore import EEnumLiteral
    out = []
    objs = walk(resource)
    sup = supers_closure(mm)
    pytypes = {'EString': str, 'EChar': str, 'EInt': int, 'ELong': int, 'EBigInteger': int, 'EBoolean': bool,
               'EDouble': float, 'EFloat': float, 'EBigDecimal': _dec.Decimal, 'EDate': _dt.datetime}
    seen = {}
    for p, o in objs:
        seen[o] = seen.get(o, 0) + 1

    def values(o, f):
        v = o.eGet(f['name'])
        if f['many']:
            return list(v)
        return [] if v is None else [v]

    def same(a, b):
        return a is b or a == b        # proxies compare as their target

    for p, o in objs:
        cname = o.eClass.name
        # ---- C02: one owner, back-pointers
        if seen[o] != 1:
            out.append(('C02-single-owner', None, f'{_jpath(p)} is held {seen[o]} times'))
        if len(p) == 1:
            if o.eContainer() is not None:
                out.append(('C02-backpointer', None, f'root {_jpath(p)} has eContainer {o.eContainer()}'))
            if o.eContainmentFeature() is not None:
                out.append(('C02-backpointer', None, f'root {_jpath(p)} has a containment feature'))
        if o.eResource is not resource:
            out.append(('C02-backpointer', None, f'{_jpath(p)}.eResource is not the resource'))
        for f in all_features(mm, cname):
            vals = values(o, f)
            if f['kind'] == 'attr':
                # ---- C03: attribute values conform
                for v in vals:
                    if v is None:
                        continue
                    if f['type'] in pytypes:
                        t = pytypes[f['type']]
                        ok = isinstance(v, t) and not (t is int and isinstance(v, bool))
                    else:
                        lits = next(e for e in mm['enums'] if e['name'] == f['type'])['literals']
                        ok = (isinstance(v, EEnumLiteral) and v.name in lits and v.eContainer().name == f['type']) \
                            or (isinstance(v, str) and v in lits)
                    if not ok:
                        out.append(('C03-typed', f['name'], f'{_jpath(p)}.{f["name"]} holds {v!r}, not a {f["type"]}'))
                if unique_clause and f['many'] and f['unique']:
                    for i, v in enumerate(vals):
                        if any(v == w and type(v) is type(w) for w in vals[:i]):
                            out.append(('unique-twice', f['name'], f'{_jpath(p)}.{f["name"]} holds {v!r} twice'))
                            break
                continue
            for v in vals:
                # ---- C03: reference values conform
                try:
                    vc = v.eClass.name
                except Exception as e:      # noqa
                    out.append(('C03-typed', f['name'], f'{_jpath(p)}.{f["name"]} holds {type(v).__name__}: {e}'))
                    continue
                if not (vc == f['type'] or f['type'] in sup.get(vc, ())):
                    out.append(('C03-typed', f['name'], f'{_jpath(p)}.{f["name"]} holds a {vc}, not a {f["type"]}'))
                # ---- C02: containment back-pointers
                if f['containment']:
                    if v.eContainer() is not o:
                        out.append(('C02-backpointer', f['name'], f'child of {_jpath(p)}.{f["name"]} names another container'))
                    cf = v.eContainmentFeature()
                    if cf is None or cf.name != f['name']:
                        out.append(('C02-backpointer', f['name'], f'child of {_jpath(p)}.{f["name"]} names another containment feature'))
                # ---- C01: symmetry
                if f['opposite']:
                    g = find_feature(mm, f['type'], f['opposite'])
                    try:
                        back = values(v, g)
                    except Exception as e:      # noqa
                        out.append(('C01-symmetry', f['name'], f'{_jpath(p)}.{f["name"]}: opposite unreadable: {e}'))
                        continue
                    if not any(same(b, o) for b in back):
                        out.append(('C01-symmetry', f['name'],
                                    f'{_jpath(p)}.{f["name"]} holds an object whose {g["name"]} does not hold it back'))
            if unique_clause and f['many'] and f['unique']:
                for i, v in enumerate(vals):
                    if any(same(v, w) for w in vals[:i]):
                        out.append(('unique-twice', f['name'], f'{_jpath(p)}.{f["name"]} holds the same element twice'))
                        break
    return out


def feature_shape(f):
    if f is None:
        return None
    if f['kind'] == 'attr':
        dd = ('literal+explicit' if f.get('default_literal') is not None and f.get('default') is not None else
              'literal' if f.get('default_literal') is not None else 'explicit' if f.get('default') is not None else None)
        return {'kind': 'attr', 'many': f['many'], 'unique': bool(f['unique']) if f['many'] else None,
                'type': f['type'], 'iD': bool(f.get('iD')), 'declared_default': dd}
    return {'kind': 'ref', 'many': f['many'], 'unique': bool(f['unique']) if f['many'] else None,
            'containment': f['containment'], 'opposite': bool(f['opposite'])}
