(* Generic driver for the extracted models.  One request per line:
     <model-name> t1 t2 ... tn
   every model is a function  list Z -> list Z ; the answer is printed as one
   line of integers.  All protocol logic lives in Coq (decoders) and in the
   Python harness (encoders); this file only converts int <-> Z. *)
open Modelgen

let rec pos_of_int n =
  if n = 1 then XH
  else if n land 1 = 0 then XO (pos_of_int (n lsr 1))
  else XI (pos_of_int (n lsr 1))

let z_of_int n =
  if n = 0 then Z0 else if n > 0 then Zpos (pos_of_int n) else Zneg (pos_of_int (-n))

let rec int_of_pos = function
  | XH -> 1
  | XO p -> 2 * int_of_pos p
  | XI p -> 2 * int_of_pos p + 1

let int_of_z = function
  | Z0 -> 0
  | Zpos p -> int_of_pos p
  | Zneg p -> - (int_of_pos p)

let dispatch name =
  match List.assoc_opt name Models.table with
  | Some f -> f
  | None -> failwith ("unknown model " ^ name)

let () =
  try
    while true do
      let line = input_line stdin in
      let toks = String.split_on_char ' ' (String.trim line) in
      match List.filter (fun s -> s <> "") toks with
      | [] -> print_newline ()
      | name :: args ->
        let f = dispatch name in
        let out = f (List.map (fun s -> z_of_int (int_of_string s)) args) in
        let buf = Buffer.create 256 in
        List.iter (fun z -> Buffer.add_string buf (string_of_int (int_of_z z)); Buffer.add_char buf ' ') out;
        print_string (Buffer.contents buf); print_newline (); flush stdout
    done
  with End_of_file -> ()
