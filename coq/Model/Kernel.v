(* Executable model of pyecore's feature store: valuecontainer.py (EValue,
   ECollection, EList, EAbstractSet), the EStructuralFeature descriptor
   (__set__/__delete__), EObject.delete/eContents/eAllContents/eRoot/eResource,
   ENotifer.notify and Resource.append/remove/extend.
   The metamodel is a value (record mm).  Unique collections are the
   duplicate-free list specification of Model/OSet.v (justified by C04's
   refinement theorem); every procedure follows the statement order of the
   Python source it names.  No proofs here. *)
From Coq Require Import ZArith List Bool Arith.
From PyecoreV Require Import Lib.PyBase Lib.PyList.
Import ListNotations.
Open Scope nat_scope.

Definition oid := nat.
Definition fid := nat.
Definition cid := nat.
Definition rid := nat.
Definition cell := (oid * fid)%type.

Definition cell_eqb (a b : cell) : bool := (fst a =? fst b) && (snd a =? snd b).

(* ---------- values and the metamodel ---------- *)
Inductive value : Type :=
| VNone
| VObj (o : oid)
| VInt (z : Z)
| VStr (s : Z)          (* index into the case's string table *)
| VBool (b : bool)
| VLit (e l : nat)      (* literal l of enumeration e *)
| VFlt (h : Z).         (* h/2 *)

(* Python == on the generated domain: True == 1 == 1.0 *)
Definition num_of (v : value) : option Z :=   (* doubled numeric value *)
  match v with
  | VInt z => Some (2 * z)%Z
  | VBool b => Some (if b then 2 else 0)%Z
  | VFlt h => Some h
  | _ => None
  end.

Definition veqb (a b : value) : bool :=
  match num_of a, num_of b with
  | Some x, Some y => Z.eqb x y
  | _, _ =>
    match a, b with
    | VNone, VNone => true
    | VObj x, VObj y => x =? y
    | VStr x, VStr y => Z.eqb x y
    | VLit e l, VLit e' l' => (e =? e') && (l =? l')
    | _, _ => false
    end
  end.

Inductive ftype : Type :=
| TClass (c : cid) | TInt | TStr | TBool | TDbl | TAny | TEnum (e : nat).

Record fdecl : Type := {
  f_owner : cid;
  f_isref : bool;
  f_many : bool;
  f_unique : bool;
  f_cont : bool;
  f_opp : option fid;
  f_type : ftype;
  f_default : value
}.

Record mm : Type := {
  feats : list fdecl;
  conf : list (cid * cid);        (* (c, d): class c is d or one of its subtypes *)
  ocls : list cid;                (* class of every object of the universe *)
  enames : list (list Z);         (* literal names (string indices) per enumeration *)
  nres : nat
}.

Definition dummy_f : fdecl :=
  {| f_owner := 0; f_isref := false; f_many := false; f_unique := true; f_cont := false;
     f_opp := None; f_type := TAny; f_default := VNone |}.

Definition fd (m : mm) (f : fid) : fdecl := nth f (feats m) dummy_f.

Definition conforms_cls (m : mm) (c d : cid) : bool :=
  existsb (fun p => (fst p =? c) && (snd p =? d)) (conf m).

Definition cls_of (m : mm) (o : oid) : cid := nth o (ocls m) 0.

Definition applicable (m : mm) (o : oid) (f : fid) : bool :=
  (f <? length (feats m)) && conforms_cls m (cls_of m o) (f_owner (fd m f)).

Definition zmem (z : Z) (l : list Z) : bool := existsb (Z.eqb z) l.

(* EcoreUtils.isinstance on the generated domain *)
Definition conforms (m : mm) (t : ftype) (v : value) : bool :=
  match v with
  | VNone => true
  | _ =>
    match t with
    | TClass c => match v with VObj o => (o <? length (ocls m)) && conforms_cls m (cls_of m o) c | _ => false end
    | TInt => match v with VInt _ | VBool _ => true | _ => false end
    | TStr => match v with VStr _ => true | _ => false end
    | TBool => match v with VBool _ => true | _ => false end
    | TDbl => match v with VFlt _ => true | _ => false end
    | TAny => true
    | TEnum e => match v with
                 | VLit e' l => e =? e'
                 | VStr s => zmem s (nth e (enames m) [])
                 | _ => false
                 end
    end
  end.

(* ---------- state ---------- *)
Inductive payload : Type := POne (v : value) | PMany (vs : list value).

Inductive nkind : Type := KAdd | KAddMany | KMove | KRemove | KRemoveMany | KSet | KUnset.

Record notif : Type := {
  n_obj : oid; n_feat : fid; n_kind : nkind; n_old : payload; n_new : payload;
  n_res : option rid     (* the resource whose listeners also receive it *)
}.

Record state : Type := {
  vals : cell -> list value;          (* single-valued features hold a one-element list *)
  isset : cell -> bool;
  cont : oid -> option cell;          (* _container, _containment_feature *)
  eres : oid -> option rid;           (* _eresource *)
  rcont : rid -> list oid;            (* Resource.contents *)
  inv : oid -> list cell;             (* _inverse_rels *)
  log : list notif                    (* most recent first *)
}.

Definition upd {A} (g : cell -> A) (k : cell) (v : A) : cell -> A :=
  fun k' => if cell_eqb k k' then v else g k'.
Definition updn {A} (g : nat -> A) (k : nat) (v : A) : nat -> A :=
  fun k' => if k =? k' then v else g k'.

Definition set_vals s k v := {| vals := upd (vals s) k v; isset := isset s; cont := cont s; eres := eres s; rcont := rcont s; inv := inv s; log := log s |}.
Definition set_isset s k := {| vals := vals s; isset := upd (isset s) k true; cont := cont s; eres := eres s; rcont := rcont s; inv := inv s; log := log s |}.
Definition set_cont s o c := {| vals := vals s; isset := isset s; cont := updn (cont s) o c; eres := eres s; rcont := rcont s; inv := inv s; log := log s |}.
Definition set_eres s o r := {| vals := vals s; isset := isset s; cont := cont s; eres := updn (eres s) o r; rcont := rcont s; inv := inv s; log := log s |}.
Definition set_rcont s r l := {| vals := vals s; isset := isset s; cont := cont s; eres := eres s; rcont := updn (rcont s) r l; inv := inv s; log := log s |}.
Definition set_inv s o l := {| vals := vals s; isset := isset s; cont := cont s; eres := eres s; rcont := rcont s; inv := updn (inv s) o l; log := log s |}.
Definition push_log s n := {| vals := vals s; isset := isset s; cont := cont s; eres := eres s; rcont := rcont s; inv := inv s; log := n :: log s |}.

Definition init_state (m : mm) : state :=
  {| vals := fun k => if f_many (fd m (snd k)) then [] else [f_default (fd m (snd k))];
     isset := fun _ => false; cont := fun _ => None; eres := fun _ => None;
     rcont := fun _ => []; inv := fun _ => []; log := [] |}.

Definition single (s : state) (k : cell) : value :=
  match vals s k with v :: _ => v | [] => VNone end.

Definition obj_of (v : value) : option oid := match v with VObj o => Some o | _ => None end.

Fixpoint objs_of (l : list value) : list oid :=
  match l with
  | [] => []
  | VObj o :: r => o :: objs_of r
  | _ :: r => objs_of r
  end.

(* ---------- eResource, notify ---------- *)
Fixpoint root_of (fuel : nat) (s : state) (o : oid) : oid :=
  match fuel with
  | O => o
  | S f => match cont s o with Some (p, _) => root_of f s p | None => o end
  end.

Definition eresource_of (m : mm) (s : state) (o : oid) : option rid :=
  eres s (root_of (S (length (ocls m))) s o).

Definition notify (m : mm) (s : state) (o : oid) (f : fid) (k : nkind) (old new : payload) : state :=
  push_log s {| n_obj := o; n_feat := f; n_kind := k; n_old := old; n_new := new;
                n_res := eresource_of m s o |}.

(* ---------- inverse bookkeeping (_inverse_rels is a set) ---------- *)
Definition cmem (c : cell) (l : list cell) : bool := existsb (cell_eqb c) l.
Definition inv_add (s : state) (o : oid) (c : cell) : state :=
  if cmem c (inv s o) then s else set_inv s o (inv s o ++ [c]).
Definition inv_del (s : state) (o : oid) (c : cell) : state :=
  set_inv s o (filter (fun c' => negb (cell_eqb c c')) (inv s o)).

(* ---------- element-level collection primitives ---------- *)
Definition vmem (v : value) (l : list value) : bool := memb veqb v l.

(* super().add / super().append / super().insert on the stored list *)
Definition raw_append (uniq : bool) (v : value) (l : list value) : list value :=
  if uniq && vmem v l then l else l ++ [v].
Definition raw_insert (uniq : bool) (i : Z) (v : value) (l : list value) : list value :=
  if uniq && vmem v l then l else py_insert i v l.
Definition raw_remove (v : value) (l : list value) : list value :=
  match remove_first veqb v l with Some l' => l' | None => l end.

(* ---------- layer 0: _update_container(None, previous_value) ---------- *)
Definition uc_clear (m : mm) (s : state) (f : fid) (prev : option oid) : state :=
  if f_cont (fd m f) then
    match prev with Some p => set_cont s p None | None => s end
  else s.

Definition nmem (o : nat) (l : list nat) : bool := existsb (Nat.eqb o) l.
Fixpoint remove_nat (o : nat) (l : list nat) : list nat :=
  match l with [] => [] | x :: r => if x =? o then r else x :: remove_nat o r end.

(* Resource.remove on a present root *)
Definition res_remove_raw (s : state) (r : rid) (o : oid) : state :=
  set_eres (set_rcont s r (remove_nat o (rcont s r))) o None.

(* store + notify + _isset, the common prefix of EValue._set *)
Definition set_store (m : mm) (s : state) (k : cell) (v : value) : state :=
  let pv := single s k in
  let s1 := set_vals s k [v] in
  let s2 := notify m s1 (fst k) (snd k) (match v with VNone => KUnset | _ => KSet end) (POne pv) (POne v) in
  set_isset s2 k.

(* ---------- removal direction (never needs the full container update) ---------- *)

(* EValue._set(None, update_opposite=False) *)
Definition set_none_raw (m : mm) (s : state) (k : cell) : state :=
  let pv := single s k in
  let s1 := set_store m s k VNone in
  if f_isref (fd m (snd k)) then uc_clear m s1 (snd k) (obj_of pv) else s1.

(* ECollection.remove(x, update_opposite=False) on a present element *)
Definition coll_remove_raw (m : mm) (s : state) (k : cell) (x : oid) : state :=
  if vmem (VObj x) (vals s k) then
    let s1 := uc_clear m s (snd k) (Some x) in
    let s2 := set_vals s1 k (raw_remove (VObj x) (vals s1 k)) in
    notify m s2 (fst k) (snd k) KRemove (POne (VObj x)) (POne VNone)
  else s.

(* ECollection._update_opposite(y, x, remove=True) for the collection cell (x,f) *)
Definition update_opposite_remove (m : mm) (s : state) (x : oid) (f : fid) (y : oid) : state :=
  match f_opp (fd m f) with
  | None =>
    if cmem (x, f) (inv s y) then inv_del s y (x, f) else inv_add s y (x, f)
  | Some g =>
    if f_many (fd m g) then
      if cell_eqb (y, g) (x, f) then s else coll_remove_raw m s (y, g) x
    else set_none_raw m s (y, g)
  end.

(* ECollection.remove(v) with update_opposite=True, after the membership test *)
Definition coll_remove_full (m : mm) (s : state) (k : cell) (v : value) : state :=
  let '(x, f) := k in
  let s1 := if f_isref (fd m f) then
              match obj_of v with
              | Some y => update_opposite_remove m (uc_clear m s f (Some y)) x f y
              | None => s
              end
            else s in
  let s2 := set_vals s1 k (raw_remove v (vals s1 k)) in
  notify m s2 x f KRemove (POne v) (POne VNone).

(* EValue._set(None) with update_opposite=True *)
Definition set_none_full (m : mm) (s : state) (k : cell) : state :=
  let '(x, f) := k in
  let pv := single s k in
  let s1 := set_store m s k VNone in
  if negb (f_isref (fd m f)) then s1 else
  let s2 := uc_clear m s1 f (obj_of pv) in
  match f_opp (fd m f) with
  | None => match obj_of pv with Some q => inv_del s2 q (x, f) | None => s2 end
  | Some g =>
    match obj_of pv with
    | Some q =>
      if f_many (fd m g) then coll_remove_raw m s2 (q, g) x
      else if cell_eqb (q, g) (x, f) then s2 else set_none_raw m s2 (q, g)
    | None => s2
    end
  end.

(* PyEcoreValue.remove_or_unset on the previous container's slot *)
Definition remove_or_unset (m : mm) (s : state) (k : cell) (y : oid) : state :=
  if f_many (fd m (snd k)) then
    (if vmem (VObj y) (vals s k) then coll_remove_full m s k (VObj y) else s)
  else set_none_full m s k.

(* ---------- PyEcoreValue._update_container(value, previous_value) ---------- *)
Definition update_container (m : mm) (s : state) (x : oid) (f : fid)
           (value prev : option oid) : state :=
  if negb (f_cont (fd m f)) then s else
  let s1 :=
    match value with
    | Some y =>
      let sa := match eresource_of m s y with
                | Some r => if nmem y (rcont s r) then res_remove_raw s r y else s
                | None => s
                end in
      let sb := match cont sa y with
                | Some (p, pf) =>
                  if negb ((p =? x) && (pf =? f)) then remove_or_unset m sa (p, pf) y else sa
                | None => sa
                end in
      set_cont sb y (Some (x, f))
    | None => s
    end in
  match prev with
  | Some p => match value with
              | Some y => if y =? p then s1 else set_cont s1 p None
              | None => set_cont s1 p None
              end
  | None => s1
  end.

(* ---------- addition direction ---------- *)

(* EValue._set(VObj x, update_opposite=False) on cell k *)
Definition set_obj_raw (m : mm) (s : state) (k : cell) (x : oid) : state :=
  let pv := single s k in
  let s1 := set_store m s k (VObj x) in
  if f_isref (fd m (snd k)) then update_container m s1 (fst k) (snd k) (Some x) (obj_of pv) else s1.

(* EList.append / EAbstractSet.add (x, update_opposite=False) on cell k *)
Definition coll_append_raw (m : mm) (s : state) (k : cell) (x : oid) : state :=
  let s1 := update_container m s (fst k) (snd k) (Some x) None in
  let s2 := set_vals s1 k (raw_append (f_unique (fd m (snd k))) (VObj x) (vals s1 k)) in
  set_isset (notify m s2 (fst k) (snd k) KAdd (POne VNone) (POne (VObj x))) k.

(* ECollection._update_opposite(y, x) (remove=False) for the collection cell (x,f) *)
Definition update_opposite_add (m : mm) (s : state) (x : oid) (f : fid) (y : oid) : state :=
  match f_opp (fd m f) with
  | None => inv_add s y (x, f)
  | Some g =>
    if f_many (fd m g) then
      if cell_eqb (y, g) (x, f) then s else coll_append_raw m s (y, g) x
    else
      let s1 := match obj_of (single s (y, g)) with
                | Some c => if c =? x then s else coll_remove_raw m s (c, f) y
                | None => s
                end in
      set_obj_raw m s1 (y, g) x
  end.

(* ---------- top-level procedures; (None, s') = returned, (Some e, s') = raised ---------- *)
Definition outcome := (option exn * state)%type.

Definition check_single (m : mm) (f : fid) (v : value) : bool := conforms m (f_type (fd m f)) v.
Definition check_elem (m : mm) (f : fid) (v : value) : bool :=
  match v with
  | VNone => negb (f_isref (fd m f))          (* ECollection.check: None refused by references *)
  | _ => conforms m (f_type (fd m f)) v
  end.

(* EValue._set(value) *)
Definition set_full (m : mm) (s : state) (k : cell) (v : value) : outcome :=
  let '(x, f) := k in
  if negb (check_single m f v) then (Some BadValue, s) else
  let pv := single s k in
  let s1 := set_store m s k v in
  if negb (f_isref (fd m f)) then (None, s1) else
  let s2 := update_container m s1 x f (obj_of v) (obj_of pv) in
  match f_opp (fd m f) with
  | None =>
    (None,
     match obj_of v with
     | Some y => inv_add (match obj_of pv with Some q => inv_del s2 q (x, f) | None => s2 end) y (x, f)
     | None => match obj_of pv with Some q => inv_del s2 q (x, f) | None => s2 end
     end)
  | Some g =>
    let s3 := match obj_of pv with
              | Some q =>
                if (match obj_of v with Some y => y =? q | None => false end) then s2
                else if f_many (fd m g) then coll_remove_raw m s2 (q, g) x
                else if cell_eqb (q, g) (x, f) then s2 else set_none_raw m s2 (q, g)
              | None => s2
              end in
    match obj_of v with
    | None => (None, s3)
    | Some y =>
      if f_many (fd m g) then (None, coll_append_raw m s3 (y, g) x)
      else
        let s4 := match obj_of (single s3 (y, g)) with
                  | Some c => if c =? x then s3 else set_none_raw m s3 (c, f)
                  | None => s3
                  end in
        (None, set_obj_raw m s4 (y, g) x)
    end
  end.

(* the reference part shared by insert/append/add/extend/update for one element *)
Definition link_elem (m : mm) (s : state) (x : oid) (f : fid) (v : value) : state :=
  if f_isref (fd m f) then
    match obj_of v with
    | Some y => update_opposite_add m (update_container m s x f (Some y) None) x f y
    | None => s
    end
  else s.

Definition unlink_elem (m : mm) (s : state) (x : oid) (f : fid) (v : value) : state :=
  if f_isref (fd m f) then
    match obj_of v with
    | Some y => update_opposite_remove m (uc_clear m s f (Some y)) x f y
    | None => s
    end
  else s.

(* ECollection.insert / EList.append / EAbstractSet.add *)
Definition coll_add_full (m : mm) (s : state) (k : cell) (pos : option Z) (v : value) : outcome :=
  let '(x, f) := k in
  if negb (check_elem m f v) then (Some BadValue, s) else
  let s1 := link_elem m s x f v in
  let u := f_unique (fd m f) in
  let l' := match pos with Some i => raw_insert u i v (vals s1 k) | None => raw_append u v (vals s1 k) end in
  let s2 := set_vals s1 k l' in
  (None, set_isset (notify m s2 x f KAdd (POne VNone) (POne v)) k).

Definition lookup_err (m : mm) (f : fid) : exn := if f_unique (fd m f) then KeyErr else ValueErr.

(* ECollection.remove *)
Definition coll_remove_top (m : mm) (s : state) (k : cell) (v : value) : outcome :=
  if vmem v (vals s k) then (None, coll_remove_full m s k v) else (Some (lookup_err m (snd k)), s).

(* ECollection.pop *)
Definition coll_pop_full (m : mm) (s : state) (k : cell) (i : Z) : outcome * option value :=
  let '(x, f) := k in
  let l := vals s k in
  match l with
  | [] => ((Some (if f_unique (fd m f) then KeyErr else IndexErr), s), None)
  | _ =>
    match py_pop i l with
    | None => ((Some IndexErr, s), None)
    | Some (v, l') =>
      let s1 := set_vals s k l' in
      let s2 := unlink_elem m s1 x f v in
      ((None, notify m s2 x f KRemove (POne v) (POne VNone)), Some v)
    end
  end.

(* ECollection.clear *)
Definition coll_clear_full (m : mm) (s : state) (k : cell) : state :=
  let '(x, f) := k in
  let l := vals s k in
  match l with
  | [] => s
  | _ =>
    let s1 := fold_left (fun acc v => unlink_elem m acc x f v) l s in
    let s2 := set_vals s1 k [] in
    notify m s2 x f KRemoveMany (PMany l) (PMany [])
  end.

(* EList.extend / EAbstractSet.update (also +=) *)
Definition coll_extend_full (m : mm) (s : state) (k : cell) (vs : list value) : outcome :=
  let '(x, f) := k in
  if negb (forallb (check_elem m f) vs) then (Some BadValue, s) else
  let u := f_unique (fd m f) in
  let s1 :=
    if u then
      fold_left (fun acc v => link_elem m (set_vals acc k (raw_append true v (vals acc k))) x f v) vs s
    else
      let sa := fold_left (fun acc v => link_elem m acc x f v) vs s in
      set_vals sa k (vals sa k ++ vs) in
  (None, set_isset (notify m s1 x f KAddMany (POne VNone) (PMany vs)) k).

Definition seq_outcome (o : outcome) (g : state -> outcome) : outcome :=
  match o with (None, s) => g s | (Some e, s) => (Some e, s) end.

(* item assignment: EAbstractSet.__setitem__ + ordered_set_patch.__setitem__, or EList.__setitem__ (int index) *)
Definition coll_setitem_full (m : mm) (s : state) (k : cell) (i : Z) (v : value) : outcome :=
  let '(x, f) := k in
  if negb (check_elem m f v) then (Some BadValue, s) else
  if f_unique (fd m f) then
    let i' := if (i <? 0)%Z then (zlen (vals s k) + i)%Z else i in
    if ((i <? 0) && (i' <? 0))%Z then (Some IndexErr, s) else
    seq_outcome (fst (coll_pop_full m s k i')) (fun s1 => coll_add_full m s1 k (Some i') v)
  else
    let s1 := link_elem m s x f v in
    match norm_index (zlen (vals s1 k)) i with
    | None => (Some IndexErr, s1)          (* raised after the new element was linked *)
    | Some n =>
      let s2 := set_vals s1 k (set_at (Z.to_nat n) v (vals s1 k)) in
      (None, set_isset (notify m s2 x f KAdd (POne VNone) (POne v)) k)
    end.

(* item deletion: ordered_set_patch.__delitem__ -> pop, or plain list.__delitem__ for EList *)
Definition coll_delitem_full (m : mm) (s : state) (k : cell) (i : Z) : outcome :=
  if f_unique (fd m (snd k)) then fst (coll_pop_full m s k i)
  else match py_pop i (vals s k) with
       | None => (Some IndexErr, s)
       | Some (_, l') => (None, set_vals s k l')
       end.

(* EStructuralFeature.__set__ on a collection (list argument) *)
Definition assign_full (m : mm) (s : state) (k : cell) (vs : list value) : outcome :=
  if negb (forallb (check_elem m (snd k)) vs) then (Some BadValue, s)
  else coll_extend_full m (coll_clear_full m s k) k vs.

(* EStructuralFeature.__delete__ *)
Definition del_full (m : mm) (s : state) (k : cell) : outcome :=
  if f_many (fd m (snd k)) then (None, coll_clear_full m s k)
  else set_full m s k (f_default (fd m (snd k))).

(* ---------- reflective views ---------- *)
Fixpoint seqn (n : nat) : list nat := match n with O => [] | S k => seqn k ++ [k] end.

Definition ref_feats (m : mm) (o : oid) : list fid :=
  filter (fun f => applicable m o f && f_isref (fd m f)) (seqn (length (feats m))).
Definition all_feats (m : mm) (o : oid) : list fid :=
  filter (fun f => applicable m o f) (seqn (length (feats m))).

(* EObject.eContents *)
Definition econtents (m : mm) (s : state) (o : oid) : list oid :=
  flat_map (fun f => if f_cont (fd m f) then objs_of (vals s (o, f)) else []) (ref_feats m o).

Fixpoint eallcontents (fuel : nat) (m : mm) (s : state) (o : oid) : list oid :=
  match fuel with
  | O => []
  | S fu => let cs := econtents m s o in cs ++ flat_map (eallcontents fu m s) cs
  end.

Definition eroot (m : mm) (s : state) (o : oid) : oid := root_of (S (length (ocls m))) s o.

(* ---------- EObject.delete ---------- *)
Definition delete_step (m : mm) (x : oid) (s : state) (k : cell) : state :=
  let '(owner, f) := k in
  if f_many (fd m f) then
    if owner =? x then coll_clear_full m s k
    else if vmem (VObj x) (vals s k) then coll_remove_full m s k (VObj x)
    else s
  else
    if (match single s k with VObj y => y =? x | _ => false end) || (owner =? x)
    then snd (set_full m s k VNone) else s.

Fixpoint delete_obj (fuel : nat) (m : mm) (s : state) (x : oid) (recursive : bool) : state :=
  match fuel with
  | O => s
  | S fu =>
    let s1 := if recursive
              then fold_left (fun acc c => delete_obj fu m acc c true) (econtents m s x) s
              else s in
    let own := map (fun f => (x, f)) (ref_feats m x) in
    (* seek is a Python set: an inverse entry that is also an own reference counts once *)
    let seek := own ++ filter (fun c => negb (cmem c own)) (inv s1 x) in
    fold_left (delete_step m x) seek s1
  end.

(* ---------- Resource.append / remove / extend ---------- *)
Definition res_append (m : mm) (s : state) (r : rid) (o : oid) : state :=
  let go s0 :=
    let s1 := set_eres (set_rcont s0 r (rcont s0 r ++ [o])) o (Some r) in
    match cont s1 o with
    | Some (p, pf) =>
      if f_many (fd m pf) then
        (if vmem (VObj o) (vals s1 (p, pf)) then coll_remove_full m s1 (p, pf) (VObj o) else s1)
      else snd (set_full m s1 (p, pf) VNone)
    | None => s1
    end in
  match eres s o with
  | Some p =>
    if nmem o (rcont s p) then (if p =? r then s else go (res_remove_raw s p o)) else go s
  | None => go s
  end.

Definition res_remove (s : state) (r : rid) (o : oid) : outcome :=
  if nmem o (rcont s r) then (None, res_remove_raw s r o) else (Some ValueErr, s).

(* ---------- operations ---------- *)
Inductive op : Type :=
| OSet (x : oid) (f : fid) (v : value)
| OUnset (x : oid) (f : fid)
| ODel (x : oid) (f : fid)
| OAssign (x : oid) (f : fid) (vs : list value)
| OAppend (x : oid) (f : fid) (v : value)
| OInsert (x : oid) (f : fid) (i : Z) (v : value)
| ORemove (x : oid) (f : fid) (v : value)
| OPop (x : oid) (f : fid) (i : Z)
| OClear (x : oid) (f : fid)
| OExtend (x : oid) (f : fid) (vs : list value)
| OSetItem (x : oid) (f : fid) (i : Z) (v : value)
| ODelItem (x : oid) (f : fid) (i : Z)
| ODelete (x : oid) (recursive : bool)
| ORAppend (r : rid) (o : oid)
| ORRemove (r : rid) (o : oid)
| ORExtend (r : rid) (os : list oid)
| ORead (x : oid) (f : fid).

Definition step (m : mm) (s : state) (o : op) : outcome * option value :=
  match o with
  | OSet x f v => (if f_many (fd m f) then (Some BadValue, s) else set_full m s (x, f) v, None)
  | OUnset x f => (if f_many (fd m f) then (Some BadValue, s) else set_full m s (x, f) VNone, None)
  | ODel x f => (del_full m s (x, f), None)
  | OAssign x f vs => (if f_many (fd m f) then assign_full m s (x, f) vs else (Some TypeErr, s), None)
  | OAppend x f v => (coll_add_full m s (x, f) None v, None)
  | OInsert x f i v => (coll_add_full m s (x, f) (Some i) v, None)
  | ORemove x f v => (coll_remove_top m s (x, f) v, None)
  | OPop x f i => coll_pop_full m s (x, f) i
  | OClear x f => ((None, coll_clear_full m s (x, f)), None)
  | OExtend x f vs => (coll_extend_full m s (x, f) vs, None)
  | OSetItem x f i v => (coll_setitem_full m s (x, f) i v, None)
  | ODelItem x f i => (coll_delitem_full m s (x, f) i, None)
  | ODelete x r => ((None, delete_obj (S (length (ocls m))) m s x r), None)
  | ORAppend r o => ((None, res_append m s r o), None)
  | ORRemove r o => (res_remove s r o, None)
  | ORExtend r os => ((None, fold_left (fun acc o => res_append m acc r o) os s), None)
  | ORead _ _ => ((None, s), None)
  end.

Definition next (m : mm) (s : state) (o : op) : state := snd (fst (step m s o)).
