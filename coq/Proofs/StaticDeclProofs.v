(* Facts about Model/StaticDecl.v: the static rendering, promoted, and the
   dynamic construction both give back exactly the description. *)
From Coq Require Import String Ascii ZArith Bool List Lia Arith.
From PyecoreV Require Import Lib.PyBase Lib.PyList Model.Operations Model.StaticDecl Proofs.OperationsProofs.
Import ListNotations.
Open Scope Z_scope.

(* ---------- lists ---------- *)

Lemma nth_error_upd_nth {A} (f : A -> A) : forall (l : list A) n m,
  nth_error (upd_nth n f l) m = if Nat.eqb n m then option_map f (nth_error l m) else nth_error l m.
Proof.
  induction l as [|x r IH]; intros n m; simpl.
  - destruct m; simpl; destruct (Nat.eqb n _); reflexivity.
  - destruct n as [|n]; destruct m as [|m]; simpl; try reflexivity. apply IH.
Qed.

Lemma upd_nth_app {A} (f : A -> A) (a : list A) x b :
  upd_nth (length a) f (a ++ x :: b) = a ++ f x :: b.
Proof. induction a as [|y a IH]; simpl; [reflexivity|]. rewrite IH. reflexivity. Qed.

Lemma nth_error_number_from {A} : forall (l : list A) i j,
  nth_error (number_from i l) j = option_map (fun x => ((i + j)%nat, x)) (nth_error l j).
Proof.
  induction l as [|x r IH]; intros i j; simpl.
  - destruct j; reflexivity.
  - destruct j as [|j]; simpl.
    + rewrite Nat.add_0_r. reflexivity.
    + rewrite IH. replace (S i + j)%nat with (i + S j)%nat by lia. reflexivity.
Qed.

Lemma In_number_from {A} (l : list A) i k x :
  In (k, x) (number_from i l) <-> exists j, k = (i + j)%nat /\ nth_error l j = Some x.
Proof.
  split.
  - intros H. apply In_nth_error in H. destruct H as [j H]. rewrite nth_error_number_from in H.
    destruct (nth_error l j) eqn:E; simpl in H; [|discriminate]. inversion H; subst. exists j. split; [reflexivity|assumption].
  - intros (j & -> & H). apply nth_error_In with (n := j). rewrite nth_error_number_from, H. reflexivity.
Qed.

Lemma number_from_app {A} (a b : list A) i :
  number_from i (a ++ b) = number_from i a ++ number_from (i + length a) b.
Proof.
  revert i. induction a as [|x a IH]; intros i; simpl.
  - rewrite Nat.add_0_r. reflexivity.
  - rewrite IH. replace (S i + length a)%nat with (i + S (length a))%nat by lia. reflexivity.
Qed.

Lemma length_number_from {A} (l : list A) i : length (number_from i l) = length l.
Proof. revert i. induction l as [|x r IH]; intros i; simpl; [reflexivity|]. rewrite IH. reflexivity. Qed.

Lemma list_ext_nth {A} : forall (l1 l2 : list A),
  (forall i, nth_error l1 i = nth_error l2 i) -> l1 = l2.
Proof.
  induction l1 as [|x r IH]; intros [|y s] H.
  - reflexivity.
  - specialize (H O). discriminate.
  - specialize (H O). discriminate.
  - pose proof (H O) as H0. simpl in H0. inversion H0; subst. f_equal. apply IH.
    intros i. apply (H (S i)).
Qed.

Lemma map_number_from {A B} (G : nat -> B) (g : A -> B) : forall (l : list A) j0,
  (forall j x, nth_error l j = Some x -> G (j0 + j)%nat = g x) ->
  map (fun jx => G (fst jx)) (number_from j0 l) = map g l.
Proof.
  induction l as [|x r IH]; intros j0 H; simpl; [reflexivity|]. f_equal.
  - rewrite <- (H O x eq_refl). rewrite Nat.add_0_r. reflexivity.
  - apply IH. intros j y E. rewrite <- (H (S j) y E). f_equal. lia.
Qed.

Lemma all_some_map {A B} (f : A -> option B) (g : A -> B) (l : list A) :
  (forall x, In x l -> f x = Some (g x)) -> all_some (map f l) = Some (map g l).
Proof.
  induction l as [|x r IH]; intros H; simpl; [reflexivity|].
  rewrite (H x (or_introl eq_refl)). rewrite IH; [reflexivity|]. intros y Hy. apply H. right. assumption.
Qed.

Lemma find_some_nth {A} (p : A -> bool) : forall l x,
  find p l = Some x -> exists n, nth_error l n = Some x /\ p x = true.
Proof.
  induction l as [|y r IH]; intros x H; simpl in H; [discriminate|].
  destruct (p y) eqn:E.
  - inversion H; subst. exists O. split; [reflexivity|assumption].
  - destruct (IH x H) as (n & Hn & Hp). exists (S n). split; assumption.
Qed.

(* ---------- names ---------- *)

Lemma has_dup_NoDup (l : list name) : has_dup l = false <-> NoDup l.
Proof.
  induction l as [|x r IH]; simpl.
  - split; [intros _; constructor|reflexivity].
  - rewrite orb_false_iff. split.
    + intros [H1 H2]. constructor; [|apply IH; assumption].
      intros Hin. apply nmem_In in Hin. congruence.
    + intros H. inversion H as [|? ? Hn Hr]; subst. split; [|apply IH; assumption].
      destruct (nmem x r) eqn:E; [|reflexivity]. apply nmem_In in E. contradiction.
Qed.

Lemma nmem_false n l : nmem n l = false <-> ~ In n l.
Proof.
  pose proof (nmem_In n l) as H. destruct (nmem n l).
  - split; [discriminate|]. intros N. exfalso. apply N. apply H. reflexivity.
  - split; [|reflexivity]. intros _ Hin. apply H in Hin. discriminate.
Qed.

Lemma qname_eqb_eq a b : qname_eqb a b = true <-> a = b.
Proof.
  destruct a as [a1 a2], b as [b1 b2]. unfold qname_eqb. simpl. rewrite andb_true_iff, !name_eqb_eq.
  split; [intros [-> ->]; reflexivity|]. intros H. inversion H. split; reflexivity.
Qed.

Lemma NoDup_nth_inj {A} (l : list A) i j x :
  NoDup l -> nth_error l i = Some x -> nth_error l j = Some x -> i = j.
Proof.
  intros ND Hi Hj. apply (proj1 (NoDup_nth_error l) ND); [|congruence].
  apply nth_error_Some. congruence.
Qed.

Lemma NoDup_app_inv {A} : forall (a b : list A),
  NoDup (a ++ b) -> NoDup a /\ NoDup b /\ (forall x, In x a -> ~ In x b).
Proof.
  induction a as [|x a IH]; intros b H; simpl in *.
  - split; [constructor|]. split; [assumption|]. intros x [].
  - inversion H as [|? ? Hn Hr]; subst. destruct (IH b Hr) as (Ha & Hb & Hd). split; [|split].
    + constructor; [|assumption]. intros Hin. apply Hn. apply in_or_app. left. assumption.
    + assumption.
    + intros y [->|Hy]; [|apply Hd; assumption]. intros Hin. apply Hn. apply in_or_app. right. assumption.
Qed.

(* ---------- bindings read afterwards ---------- *)

Section AssocLast.
  Context {K V : Type} (eqb : K -> K -> bool).
  Hypothesis eqb_eq : forall a b, eqb a b = true <-> a = b.

  Lemma assoc_last_some_in k : forall (l : list (K * V)) v, assoc_last eqb k l = Some v -> In (k, v) l.
  Proof.
    induction l as [|[k' v'] r IH]; intros v H; simpl in H; [discriminate|].
    destruct (assoc_last eqb k r) as [w|] eqn:E.
    - inversion H; subst. right. apply IH. reflexivity.
    - destruct (eqb k k') eqn:Ek; [|discriminate]. apply eqb_eq in Ek. inversion H; subst. left. reflexivity.
  Qed.

  (* all bindings of k agree: that value is read *)
  Lemma assoc_last_functional k v : forall (l : list (K * V)),
    In (k, v) l -> (forall v', In (k, v') l -> v' = v) -> assoc_last eqb k l = Some v.
  Proof.
    induction l as [|[k' v'] r IH]; intros Hin F; simpl; [destruct Hin|].
    destruct (assoc_last eqb k r) as [w|] eqn:E.
    - apply assoc_last_some_in in E. f_equal. apply F. right. assumption.
    - destruct (eqb k k') eqn:Ek.
      + apply eqb_eq in Ek. subst k'. f_equal. apply F. left. reflexivity.
      + destruct Hin as [Hh|Ht].
        * inversion Hh; subst. assert (eqb k k = true) as X by (apply eqb_eq; reflexivity). congruence.
        * assert (X : @None V = Some v); [|discriminate X]. apply IH; [assumption|]. intros w Hw. apply F. right. assumption.
  Qed.

  Lemma assoc_last_none k : forall (l : list (K * V)),
    (forall v, ~ In (k, v) l) -> assoc_last eqb k l = None.
  Proof.
    intros l H. destruct (assoc_last eqb k l) as [v|] eqn:E; [|reflexivity].
    apply assoc_last_some_in in E. exfalso. apply (H v). assumption.
  Qed.
End AssocLast.

(* ---------- dicts ---------- *)

Lemma dict_set_fresh {V} (k : name) (v : V) : forall d,
  ~ In k (map fst d) -> dict_set d k v = d ++ [(k, v)].
Proof.
  induction d as [|[k' v'] r IH]; intros H; simpl; [reflexivity|].
  destruct (name_eqb k k') eqn:E.
  - apply name_eqb_eq in E. subst. exfalso. apply H. left. reflexivity.
  - rewrite IH; [reflexivity|]. intros Hin. apply H. right. assumption.
Qed.

Lemma dict_get_in {V} (k : name) (v : V) : forall d,
  NoDup (map fst d) -> In (k, v) d -> dict_get d k = Some v.
Proof.
  induction d as [|[k' v'] r IH]; intros ND Hin; simpl; [destruct Hin|].
  inversion ND as [|? ? Hn Hr]; subst. destruct Hin as [Hh|Ht].
  - inversion Hh; subst. rewrite name_eqb_refl. reflexivity.
  - destruct (name_eqb k k') eqn:E.
    + apply name_eqb_eq in E. subst. exfalso. apply Hn. apply in_map_iff. exists (k', v). split; [reflexivity|assumption].
    + apply IH; assumption.
Qed.

(* ---------- the heap: writes at locations ---------- *)

Definition loc_eq_dec (a b : loc) : {a = b} + {a <> b}.
Proof. decide equality; apply Nat.eq_dec. Qed.

Lemma get_upd_loc p l f h :
  get_loc p (upd_loc l f h) = if loc_eq_dec p l then option_map f (get_loc p h) else get_loc p h.
Proof.
  destruct p as [pi pj], l as [li lj]. unfold get_loc, upd_loc. simpl.
  rewrite nth_error_upd_nth. destruct (Nat.eqb li pi) eqn:Ei.
  - apply Nat.eqb_eq in Ei. subst li. destruct (nth_error h pi) as [row|]; simpl.
    + rewrite nth_error_upd_nth. destruct (Nat.eqb lj pj) eqn:Ej.
      * apply Nat.eqb_eq in Ej. subst lj. destruct (loc_eq_dec (pi, pj) (pi, pj)); [reflexivity|congruence].
      * apply Nat.eqb_neq in Ej. destruct (loc_eq_dec (pi, pj) (pi, lj)) as [E|]; [inversion E; congruence|reflexivity].
    + destruct (loc_eq_dec (pi, pj) (pi, lj)); reflexivity.
  - apply Nat.eqb_neq in Ei. destruct (loc_eq_dec (pi, pj) (li, lj)) as [E|]; [inversion E; congruence|reflexivity].
Qed.

(* a sequence of in-place writes *)
Definition write := (loc * (fobj -> fobj))%type.

Definition apply_writes (ws : list write) (h : heap) : heap :=
  fold_left (fun h w => upd_loc (fst w) (snd w) h) ws h.

Definition effect_at (x : loc) (o : fobj) (w : write) : fobj :=
  if loc_eq_dec x (fst w) then snd w o else o.

Lemma get_apply_writes x : forall ws h,
  get_loc x (apply_writes ws h) = option_map (fun o => fold_left (effect_at x) ws o) (get_loc x h).
Proof.
  induction ws as [|w r IH]; intros h; simpl.
  - destruct (get_loc x h); reflexivity.
  - unfold apply_writes in *. simpl. rewrite IH. rewrite get_upd_loc.
    destruct (get_loc x h) as [o|]; destruct (loc_eq_dec x (fst w)) eqn:D; simpl; try reflexivity;
      f_equal; f_equal; unfold effect_at; rewrite D; reflexivity.
Qed.

Lemma apply_writes_app a b h : apply_writes (a ++ b) h = apply_writes b (apply_writes a h).
Proof. unfold apply_writes. apply fold_left_app. Qed.

Definition touches (x : loc) (w : write) : bool := if loc_eq_dec x (fst w) then true else false.

(* every write that touches x is the same idempotent update G *)
Lemma fold_effect_const x (G : fobj -> fobj) : forall ws,
  (forall w, In w ws -> fst w = x -> forall o, snd w o = G o) ->
  (forall o, G (G o) = G o) ->
  forall o, fold_left (effect_at x) ws o = if existsb (touches x) ws then G o else o.
Proof.
  assert (Stable : forall ws, (forall w, In w ws -> fst w = x -> forall o, snd w o = G o) ->
                   (forall o, G (G o) = G o) -> forall o, fold_left (effect_at x) ws (G o) = G o).
  { induction ws as [|w r IH]; intros H I o; simpl; [reflexivity|].
    unfold effect_at at 2. destruct (loc_eq_dec x (fst w)) as [E|N].
    - rewrite (H w (or_introl eq_refl) (eq_sym E)), I. apply IH; [|assumption].
      intros w' Hw'. apply H. right. assumption.
    - apply IH; [|assumption]. intros w' Hw'. apply H. right. assumption. }
  induction ws as [|w r IH]; intros H I o; simpl; [reflexivity|].
  unfold effect_at at 2, touches at 1. destruct (loc_eq_dec x (fst w)) as [E|N]; simpl.
  - rewrite (H w (or_introl eq_refl) (eq_sym E)). apply Stable; [|assumption].
    intros w' Hw'. apply H. right. assumption.
  - apply IH; [|assumption]. intros w' Hw'. apply H. right. assumption.
Qed.

(* ---------- what wf_descr says ---------- *)

Definition at_loc (cs : list cdecl) (p : loc) (c : cdecl) (f : fdecl) : Prop :=
  nth_error cs (fst p) = Some c /\ nth_error (cd_feats c) (snd p) = Some f.

Record WF (D : descr) : Prop := mkWF {
  wf_names : NoDup (map cd_name (d_classes D));
  wf_keys : forall i c, nth_error (d_classes D) i = Some c ->
            NoDup (map fd_name (cd_feats c) ++ map fst (cd_ops c));
  wf_feats : forall i c f, nth_error (d_classes D) i = Some c -> In f (cd_feats c) -> wf_feat D c f = true;
  wf_ops : forall i c o, nth_error (d_classes D) i = Some c -> In o (cd_ops c) -> wf_op o = true;
  wf_sup_nodup : forall i c, nth_error (d_classes D) i = Some c -> NoDup (cd_supers c);
  wf_sup_before : forall i c s, nth_error (d_classes D) i = Some c -> In s (cd_supers c) ->
                  In s (map cd_name (firstn i (d_classes D)))
}.

Lemma wf_classes_nth D : forall cs prev i c,
  wf_classes D prev cs = true -> nth_error cs i = Some c ->
  wf_class D (prev ++ map cd_name (firstn i cs)) c = true.
Proof.
  induction cs as [|a r IH]; intros prev i c H Hn; [destruct i; discriminate|].
  simpl in H. apply andb_true_iff in H. destruct H as [H1 H2]. destruct i as [|i]; simpl in *.
  - inversion Hn; subst. rewrite app_nil_r. assumption.
  - specialize (IH _ _ _ H2 Hn). rewrite <- app_assoc in IH. exact IH.
Qed.

Lemma wf_descr_WF D : wf_descr D = true -> WF D.
Proof.
  unfold wf_descr. rewrite !andb_true_iff. intros [[[H1 _] _] H4].
  apply negb_true_iff in H1. apply has_dup_NoDup in H1.
  assert (C : forall i c, nth_error (d_classes D) i = Some c ->
              wf_class D (map cd_name (firstn i (d_classes D))) c = true).
  { intros i c Hn. apply (wf_classes_nth D _ [] i c H4 Hn). }
  constructor; try assumption.
  - intros i c Hn. specialize (C i c Hn). unfold wf_class in C. rewrite !andb_true_iff in C.
    destruct C as [[[[C1 _] _] _] _]. apply negb_true_iff in C1. apply has_dup_NoDup. assumption.
  - intros i c f Hn Hf. specialize (C i c Hn). unfold wf_class in C. rewrite !andb_true_iff in C.
    destruct C as [[[[_ C2] _] _] _]. rewrite forallb_forall in C2. apply C2. assumption.
  - intros i c o Hn Ho. specialize (C i c Hn). unfold wf_class in C. rewrite !andb_true_iff in C.
    destruct C as [[[_ C3] _] _]. rewrite forallb_forall in C3. apply C3. assumption.
  - intros i c Hn. specialize (C i c Hn). unfold wf_class in C. rewrite !andb_true_iff in C.
    destruct C as [[_ C4] _]. apply negb_true_iff in C4. apply has_dup_NoDup. assumption.
  - intros i c s Hn Hs. specialize (C i c Hn). unfold wf_class in C. rewrite !andb_true_iff in C.
    destruct C as [_ C5]. rewrite forallb_forall in C5. apply nmem_In. apply C5. assumption.
Qed.

(* ---------- names resolve to positions ---------- *)

Section Resolution.
  Variable D : descr.
  Hypothesis W : WF D.
  Let cs := d_classes D.

  Lemma class_name_inj i j c c' :
    nth_error cs i = Some c -> nth_error cs j = Some c' -> cd_name c = cd_name c' -> i = j.
  Proof.
    intros Hi Hj E. apply (NoDup_nth_inj (map cd_name cs) i j (cd_name c) (wf_names D W)).
    - apply map_nth_error. assumption.
    - rewrite E. apply map_nth_error. assumption.
  Qed.

  Lemma feat_name_inj i c j j' f f' :
    nth_error cs i = Some c -> nth_error (cd_feats c) j = Some f -> nth_error (cd_feats c) j' = Some f' ->
    fd_name f = fd_name f' -> j = j'.
  Proof.
    intros Hc Hj Hj' E. pose proof (wf_keys D W i c Hc) as ND. apply NoDup_app_inv in ND. destruct ND as [ND _].
    apply (NoDup_nth_inj (map fd_name (cd_feats c)) j j' (fd_name f) ND).
    - apply map_nth_error. assumption.
    - rewrite E. apply map_nth_error. assumption.
  Qed.

  Lemma In_class_index n i :
    In (n, i) (class_index cs) <-> exists c, nth_error cs i = Some c /\ cd_name c = n.
  Proof.
    unfold class_index. rewrite in_map_iff. split.
    - intros ([k c] & E & Hin). simpl in E. inversion E; subst. apply In_number_from in Hin.
      destruct Hin as (j & -> & Hj). exists c. split; [assumption|reflexivity].
    - intros (c & Hn & <-). exists (i, c). split; [reflexivity|]. apply In_number_from. exists i.
      split; [reflexivity|assumption].
  Qed.

  Lemma lookup_cls_at i c : nth_error cs i = Some c -> lookup_cls cs (cd_name c) = Some i.
  Proof.
    intros Hn. unfold lookup_cls. apply (assoc_last_functional name_eqb name_eqb_eq).
    - apply In_class_index. exists c. split; [assumption|reflexivity].
    - intros i' Hin. apply In_class_index in Hin. destruct Hin as (c' & Hn' & E).
      apply (class_name_inj i' i c' c Hn' Hn E).
  Qed.

  Lemma lookup_cls_some n j : lookup_cls cs n = Some j -> exists c, nth_error cs j = Some c /\ cd_name c = n.
  Proof.
    intros H. apply (assoc_last_some_in name_eqb name_eqb_eq) in H. apply In_class_index. assumption.
  Qed.

  Lemma In_byname q p :
    In (q, p) (byname cs) <-> exists c f, at_loc cs p c f /\ q = (cd_name c, fd_name f).
  Proof.
    unfold byname. rewrite in_flat_map. split.
    - intros ([i c] & Hic & Hin). simpl in Hin. apply in_map_iff in Hin.
      destruct Hin as ([j f] & E & Hjf). simpl in E. inversion E; subst.
      apply In_number_from in Hic. destruct Hic as (i' & -> & Hi).
      apply In_number_from in Hjf. destruct Hjf as (j' & -> & Hj).
      exists c, f. split; [split; assumption|reflexivity].
    - intros (c & f & [Hc Hf] & ->). destruct p as [i j]. simpl in *. exists (i, c). split.
      + apply In_number_from. exists i. split; [reflexivity|assumption].
      + simpl. apply in_map_iff. exists (j, f). split; [reflexivity|].
        apply In_number_from. exists j. split; [reflexivity|assumption].
  Qed.

  Lemma resolve_d_at p c f : at_loc cs p c f -> resolve_d cs (cd_name c, fd_name f) = Some p.
  Proof.
    intros A. unfold resolve_d. apply (assoc_last_functional qname_eqb qname_eqb_eq).
    - apply In_byname. exists c, f. split; [assumption|reflexivity].
    - intros p' Hin. apply In_byname in Hin. destruct Hin as (c' & f' & [Hc' Hf'] & E).
      inversion E as [[E1 E2]]. destruct A as [Hc Hf]. destruct p as [i j], p' as [i' j']. simpl in *.
      assert (i = i') by (apply (class_name_inj i i' c c' Hc Hc' E1)). subst i'.
      assert (c' = c) by congruence. subst c'.
      assert (j = j') by (apply (feat_name_inj i c j j' f f' Hc Hf Hf' E2)). subst j'. reflexivity.
  Qed.

  (* a declared opposite exists, is a reference, and declares this feature back *)
  Lemma opp_ok p c f q :
    at_loc cs p c f -> fd_opp f = Some q ->
    exists p2 c2 f2, at_loc cs p2 c2 f2 /\ q = (cd_name c2, fd_name f2) /\
                     fd_opp f2 = Some (cd_name c, fd_name f).
  Proof.
    intros [Hc Hf] Ho. pose proof (wf_feats D W (fst p) c f Hc (nth_error_In _ _ Hf)) as Wf.
    unfold wf_feat in Wf. apply andb_true_iff in Wf. destruct Wf as [_ Wf]. rewrite Ho in Wf.
    destruct (fd_ref f).
    - rewrite !andb_true_iff in Wf. destruct Wf as [_ Wf]. fold cs in Wf.
      unfold find_fdecl in Wf. destruct (find (fun c0 => name_eqb (fst q) (cd_name c0)) cs) as [c2|] eqn:F1; [|discriminate].
      destruct (find (fun f0 => name_eqb (snd q) (fd_name f0)) (cd_feats c2)) as [f2|] eqn:F2; [|discriminate].
      apply andb_true_iff in Wf. destruct Wf as [_ Wf].
      destruct (fd_opp f2) as [q'|] eqn:O2; [|discriminate]. apply qname_eqb_eq in Wf. subst q'.
      apply find_some_nth in F1. destruct F1 as (i2 & Hi2 & E1). apply name_eqb_eq in E1.
      apply find_some_nth in F2. destruct F2 as (j2 & Hj2 & E2). apply name_eqb_eq in E2.
      exists (i2, j2), c2, f2. split; [split; assumption|]. split; [|assumption].
      destruct q as [q1 q2]. simpl in *. congruence.
    - rewrite !andb_true_iff in Wf. destruct Wf as [_ Wf]. discriminate.
  Qed.
End Resolution.

(* ---------- the eOpposite assignments, for any resolver that finds the declared features ---------- *)

Definition opp_loc (cs : list cdecl) (f : fdecl) : option loc :=
  match fd_opp f with Some q => resolve_d cs q | None => None end.

Definition opp_writes (R : qname -> option loc) (l : list (qname * qname)) : list write :=
  flat_map (fun ab => match R (fst ab), R (snd ab) with
                      | Some p, Some q => [(p, set_oppf q); (q, set_oppf p)]
                      | _, _ => []
                      end) l.

Lemma exec_opps_writes R : forall l h,
  (forall ab, In ab l -> R (fst ab) <> None /\ R (snd ab) <> None) ->
  exec_opps R l h = Some (apply_writes (opp_writes R l) h).
Proof.
  induction l as [|[a b] r IH]; intros h H; simpl; [reflexivity|].
  destruct (H (a, b) (or_introl eq_refl)) as [Ha Hb]. simpl in Ha, Hb.
  destruct (R a) as [p|]; [|congruence]. destruct (R b) as [q|]; [|congruence].
  rewrite IH; [|intros ab Hab; apply H; right; assumption].
  unfold opp_writes. simpl. destruct (R a); reflexivity.
Qed.

Lemma at_loc_fun cs p c f c' f' : at_loc cs p c f -> at_loc cs p c' f' -> c = c' /\ f = f'.
Proof. intros [A1 A2] [B1 B2]. assert (c = c') by congruence. subst. split; congruence. Qed.

Lemma In_all_opps cs a b :
  In (a, b) (all_opps cs) <-> exists p c f, at_loc cs p c f /\ a = (cd_name c, fd_name f) /\ fd_opp f = Some b.
Proof.
  unfold all_opps. rewrite in_flat_map. split.
  - intros (c & Hc & Hin). apply in_flat_map in Hin. destruct Hin as (f & Hf & Hin).
    destruct (fd_opp f) as [q|] eqn:E; [|destruct Hin]. destruct Hin as [Hin|[]]. inversion Hin; subst.
    apply In_nth_error in Hc. destruct Hc as [i Hi]. apply In_nth_error in Hf. destruct Hf as [j Hj].
    exists (i, j), c, f. split; [split; assumption|]. split; [reflexivity|assumption].
  - intros ([i j] & c & f & [Hc Hf] & -> & E). simpl in *. exists c. split; [eapply nth_error_In; eassumption|].
    apply in_flat_map. exists f. split; [eapply nth_error_In; eassumption|]. rewrite E. left. reflexivity.
Qed.

Lemma set_oppf_idem y o : set_oppf y (set_oppf y o) = set_oppf y o.
Proof. reflexivity. Qed.

Section OppPhase.
  Variable D : descr.
  Hypothesis W : WF D.
  Let cs := d_classes D.
  Variable R : qname -> option loc.
  Hypothesis R_at : forall p c f, at_loc cs p c f -> R (cd_name c, fd_name f) = Some p.
  Variable L : list (qname * qname).
  Hypothesis L_sub : forall ab, In ab L -> In ab (all_opps cs).
  Hypothesis L_cover : forall a b, In (a, b) (all_opps cs) -> In (a, b) L \/ In (b, a) L.

  (* every write comes from a declared pair: (location of a feature, location of its declared opposite) *)
  Lemma opp_write_inv w :
    In w (opp_writes R L) ->
    exists p c f p2 c2 f2, at_loc cs p c f /\ at_loc cs p2 c2 f2 /\
      fd_opp f = Some (cd_name c2, fd_name f2) /\ fd_opp f2 = Some (cd_name c, fd_name f) /\
      (w = (p, set_oppf p2) \/ w = (p2, set_oppf p)).
  Proof.
    unfold opp_writes. rewrite in_flat_map. intros ([a b] & Hab & Hw). simpl in Hw.
    apply L_sub in Hab. apply In_all_opps in Hab. destruct Hab as (p & c & f & A & -> & Ho).
    destruct (opp_ok D W p c f b A Ho) as (p2 & c2 & f2 & A2 & -> & Ho2).
    fold cs in A2. rewrite (R_at p c f A), (R_at p2 c2 f2 A2) in Hw.
    exists p, c, f, p2, c2, f2. repeat split; try assumption; try (apply A); try (apply A2).
    destruct Hw as [<-|[<-|[]]]; [left|right]; reflexivity.
  Qed.

  Lemma opp_phase h :
    exists h', exec_opps R L h = Some h' /\
      forall p c f o, at_loc cs p c f -> get_loc p h = Some o ->
        get_loc p h' = Some (match opp_loc cs f with Some y => set_oppf y o | None => o end).
  Proof.
    eexists. split.
    - apply exec_opps_writes. intros [a b] Hab. simpl. apply L_sub in Hab. apply In_all_opps in Hab.
      destruct Hab as (p & c & f & A & -> & Ho).
      destruct (opp_ok D W p c f b A Ho) as (p2 & c2 & f2 & A2 & -> & _). fold cs in A2.
      rewrite (R_at p c f A), (R_at p2 c2 f2 A2). split; discriminate.
    - intros p c f o A Hg. rewrite get_apply_writes, Hg. simpl. f_equal. unfold opp_loc.
      destruct (fd_opp f) as [q|] eqn:Ho.
      + destruct (opp_ok D W p c f q A Ho) as (p2 & c2 & f2 & A2 & -> & Ho2). fold cs in A2.
        pose proof (resolve_d_at D W p2 c2 f2 A2) as RD. fold cs in RD. rewrite RD.
        rewrite (fold_effect_const p (set_oppf p2)); [| |intros; apply set_oppf_idem].
        * assert (T : existsb (touches p) (opp_writes R L) = true); [|rewrite T; reflexivity].
          apply existsb_exists. exists (p, set_oppf p2). split.
          -- assert (I : In ((cd_name c, fd_name f), (cd_name c2, fd_name f2)) (all_opps cs)).
             { apply In_all_opps. exists p, c, f. split; [assumption|]. split; [reflexivity|assumption]. }
             unfold opp_writes. apply in_flat_map. destruct (L_cover _ _ I) as [I1|I2].
             ++ eexists. split; [exact I1|]. simpl. rewrite (R_at p c f A), (R_at p2 c2 f2 A2). left. reflexivity.
             ++ eexists. split; [exact I2|]. simpl. rewrite (R_at p c f A), (R_at p2 c2 f2 A2). right. left. reflexivity.
          -- unfold touches. simpl. destruct (loc_eq_dec p p); [reflexivity|congruence].
        * intros w Hw Hfst o0. apply opp_write_inv in Hw.
          destruct Hw as (p' & c' & f' & p3 & c3 & f3 & A' & A3 & O' & O3 & [->|->]); simpl in Hfst; subst.
          -- destruct (at_loc_fun cs p c f c' f' A A') as [-> ->]. rewrite Ho in O'. inversion O' as [[E1 E2]].
             assert (X : R (cd_name c2, fd_name f2) = Some p2) by (apply R_at; assumption).
             rewrite E1, E2 in X. rewrite (R_at p3 c3 f3 A3) in X. inversion X; subst. reflexivity.
          -- destruct (at_loc_fun cs p c f c3 f3 A A3) as [-> ->]. rewrite Ho in O3. inversion O3 as [[E1 E2]].
             assert (X : R (cd_name c2, fd_name f2) = Some p2) by (apply R_at; assumption).
             rewrite E1, E2 in X. rewrite (R_at p' c' f' A') in X. inversion X; subst. reflexivity.
      + rewrite (fold_effect_const p (fun o => o)); [destruct (existsb _ _); reflexivity| |reflexivity].
        intros w Hw Hfst o0. exfalso. apply opp_write_inv in Hw.
        destruct Hw as (p' & c' & f' & p3 & c3 & f3 & A' & A3 & O' & O3 & [->|->]); simpl in Hfst; subst.
        * destruct (at_loc_fun cs p c f c' f' A A') as [-> ->]. congruence.
        * destruct (at_loc_fun cs p c f c3 f3 A A3) as [-> ->]. congruence.
  Qed.
End OppPhase.
