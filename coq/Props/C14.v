(* C14 — references across resources reach the right object after a reload.
   Statements only; proofs are in Proofs/PathsProofs.v and Proofs/ProxyProofs.v.

   Proved: (1) the path algebra — the relative href a resource writes for a
   target file, joined to the directory of that resource and normalised, is the
   target file, for all absolute paths made of plain segments (no '', '.', '..');
   (2) a resolved EProxy is transparent for ==, hash, attribute reads and writes;
   (3) membership: a target is found in an OrderedSet through a proxy entry iff
   the hash remembered at insertion is the target's hash — true when the proxy
   was resolved before insertion (`C14_member_partial`), false when it was
   inserted unresolved, which is what both loaders do (`C14_member_refuted`,
   known finding F-C14-member-xmi, F-C14-member-json).
   (4) the lookup of ResourceSet.can_resolve / resolve (Model/Href.v, compared with the real ResourceSet on
   registries with aliases): the relative href that save writes for a target reaches the resource registered
   under the target's normalised path WHATEVER aliases the registry also holds (C14_href_reaches_the_registered_target);
   the lookup order before fix 6d0de70 (raw string first) is refuted on two referrers in different directories
   using the same relative string (C14_same_relative_string_rawfirst_refuted).
   NOT proved (rests on the correspondence/oracle of harness/props/c14.py):
   that save() writes exactly relative_from_me, that the loader registers the
   loaded resource under the normalised path, order of mixed local/cross targets
   (lost by the XMI writer: known finding F-C14-order-xmi), delete() through a
   proxy, on-demand loading itself. *)
From Coq Require Import ZArith List Bool.
From PyecoreV Require Import Lib.PyBase Lib.PyDict Model.Paths Model.Proxy Model.Href Proofs.PathsProofs Proofs.ProxyProofs Proofs.HrefProofs.
Import ListNotations.
Open Scope Z_scope.

(* URI(a).apply_relative_from_me(URI(a).relative_from_me(URI(b))), normalised, is b *)
Theorem C14_relative_href_roundtrip :
  forall a b, pabs a = true -> pabs b = true -> plain_all (psegs a) -> plain_all (psegs b) ->
    uri_normalize (uri_apply_relative_from_me a (uri_relative_from_me a b)) = b.
Proof. exact relative_roundtrip. Qed.
Print Assumptions C14_relative_href_roundtrip.

(* normalising an absolute path is idempotent; what is written does not depend on the spelling of the URIs;
   the written path is '..'* followed by plain segments *)
Theorem C14_normalize_idempotent :
  forall p, pabs p = true -> normpath (normpath p) = normpath p.
Proof. exact normpath_abs_idem. Qed.
Print Assumptions C14_normalize_idempotent.

Theorem C14_relative_of_normalized :
  forall a b, pabs a = true -> pabs b = true ->
    uri_relative_from_me (uri_normalize a) (uri_normalize b) = uri_relative_from_me a b.
Proof. exact relative_of_normalized. Qed.
Print Assumptions C14_relative_of_normalized.

Theorem C14_relative_shape :
  forall a b, pabs a = true -> pabs b = true ->
    exists n rest, psegs (uri_relative_from_me a b) = repeat DOTDOT n ++ rest /\ plain_all rest.
Proof. exact relative_shape. Qed.
Print Assumptions C14_relative_shape.

(* the segment representation loses nothing: '/'.join(s.split('/')) = s *)
Theorem C14_render_parse : forall s, render (parse s) = s.
Proof. exact render_parse. Qed.
Print Assumptions C14_render_parse.

(* after force_resolve the proxy hashes like, compares equal to (both ways, and to nothing else),
   reads and writes the attributes of its target *)
Theorem C14_proxy_transparent :
  forall h h' p t, force_resolve h p = Ok (t, h') ->
    force_resolve h' p = Ok (t, h') /\
    py_hash h' (VProxy p) = py_hash h' (VObj t) /\
    (forall o, py_eq h' (VProxy p) (VObj o) = (Ok (t =? o), h')) /\
    (forall o, py_eq h' (VObj o) (VProxy p) = (Ok (t =? o), h')) /\
    py_getattr h' (VProxy p) = py_getattr h' (VObj t) /\
    (forall z, py_setattr h' (VProxy p) z = py_setattr h' (VObj t) z) /\
    (forall z h2, py_setattr h' (VProxy p) z = Ok h2 ->
       py_getattr h2 (VObj t) = Ok (z, h2) /\ py_getattr h2 (VProxy p) = Ok (z, h2)) /\
    (forall z h2, py_setattr h' (VObj t) z = Ok h2 -> py_getattr h2 (VProxy p) = Ok (z, h2)).
Proof.
  intros h h' p t H.
  exact (conj (force_resolve_idem h p t h' H)
        (conj (hash_like_target h h' p t H)
        (conj (eq_left h h' p t H)
        (conj (eq_right h h' p t H)
        (conj (getattr_delegates h h' p t H)
        (conj (setattr_delegates h h' p t H)
        (conj (write_through_read_direct h h' p t H)
              (write_direct_read_through h h' p t H)))))))).
Qed.
Print Assumptions C14_proxy_transparent.

(* `==` resolves by itself *)
Theorem C14_eq_resolves :
  forall h h' p t, force_resolve h p = Ok (t, h') ->
    forall o, py_eq h (VProxy p) (VObj o) = (Ok (t =? o), h') /\ py_eq h (VObj o) (VProxy p) = (Ok (t =? o), h').
Proof. exact eq_resolves. Qed.
Print Assumptions C14_eq_resolves.

(* membership of the target through a proxy entry: exactly when the remembered hash is the target's.
   (For the proxy OBJECT ITSELF as probe CPython may also succeed by accident: it checks identity on whatever
   slot the probe reaches before comparing stored hashes; the model's "not found" is then "found only if the
   addresses happen to collide" — not claimed here, not compared by the correspondence.) *)
Theorem C14_member_iff :
  forall h p t hs, state_of h p = Resolved t ->
    ps_contains h (VObj t) (singleton hs (VProxy p)) = (Ok (hs =? t), h).
Proof. intros h p t hs H. exact (proj1 (member_iff h p t hs H)). Qed.
Print Assumptions C14_member_iff.

(* partial: holds for a proxy that was resolved BEFORE it entered the collection *)
Theorem C14_member_partial :
  forall h p t h1 s1, state_of h p = Resolved t ->
    ps_add h (VProxy p) pset_empty = (Ok s1, h1) ->
    h1 = h /\ ps_contains h (VObj t) s1 = (Ok true, h) /\ ps_index h (VObj t) s1 = (Ok 0, h).
Proof. exact member_resolved_first. Qed.
Print Assumptions C14_member_partial.

(* refuted in general: inserted unresolved (what the loaders do), resolved later => the target is
   reported absent although iteration finds an element equal to the target *)
Theorem C14_member_refuted_general :
  forall h p path t h1 s1 h2, state_of h p = Unresolved path -> p <> t ->
    ps_add h (VProxy p) pset_empty = (Ok s1, h1) ->
    force_resolve h1 p = Ok (t, h2) ->
    ps_contains h2 (VObj t) s1 = (Ok false, h2) /\
    ps_index h2 (VObj t) s1 = (Err KeyErr, h2) /\
    any_eq h2 (VObj t) (p_items s1) = (Ok true, h2).
Proof.
  intros h p path t h1 s1 h2 H1 H2 H3 H4.
  exact (conj (proj1 (member_unresolved_first h p path t h1 s1 h2 H1 H2 H3 H4))
              (proj2 (proj2 (member_unresolved_first h p path t h1 s1 h2 H1 H2 H3 H4)))).
Qed.
Print Assumptions C14_member_refuted_general.

(* whatever the collection holds: no remembered hash equal to the target's => absent *)
Theorem C14_member_lost :
  forall h s t, (forall e, In e (p_map s) -> e_hash e <> t) ->
    ps_contains h (VObj t) s = (Ok false, h) /\ ps_index h (VObj t) s = (Err KeyErr, h).
Proof. exact member_lost. Qed.
Print Assumptions C14_member_lost.

(* the witness replayed on the implementation by harness/props/c14.py (known/C14_member_xmi.json):
   object 7 reachable under path 5, proxy 1001 for path 5 added unresolved, then followed *)
Example C14_member_refuted :
  let h0 := {| pstates := [(1001, Unresolved 5)]; world := [(5, 7)]; attrs := [(7, 107)] |} in
  exists s1 h2,
    ps_add h0 (VProxy 1001) pset_empty = (Ok s1, h0) /\
    force_resolve h0 1001 = Ok (7, h2) /\
    py_eq h2 (VProxy 1001) (VObj 7) = (Ok true, h2) /\
    py_hash h2 (VProxy 1001) = py_hash h2 (VObj 7) /\
    ps_contains h2 (VObj 7) s1 = (Ok false, h2) /\
    ps_index h2 (VObj 7) s1 = (Err KeyErr, h2).
Proof. vm_compute. eexists. eexists. repeat split; reflexivity. Qed.

(* non-vacuity of the path theorem: /w/a/b/one.xmi and /w/c/two.xmi give ../../c/two.xmi *)
Example C14_paths_witness :
  let a := parse [47;119;47;97;47;98;47;111] in     (* "/w/a/b/o" *)
  let b := parse [47;119;47;99;47;116] in           (* "/w/c/t" *)
  render_norm (uri_relative_from_me a b) = [46;46;47;46;46;47;99;47;116] /\   (* "../../c/t" *)
  uri_normalize (uri_apply_relative_from_me a (uri_relative_from_me a b)) = b.
Proof. vm_compute. split; reflexivity. Qed.

(* ---------- which registered resource an href reaches ---------- *)
Theorem C14_href_reaches_the_registered_target :
  forall (r : registry) a b (id : Z),
    pabs a = true -> pabs b = true -> plain_all (psegs a) -> plain_all (psegs b) ->
    lookup (render_norm b) r = Some id ->
    resolve_relfirst r a (uri_relative_from_me a b) = Some id.
Proof. exact relfirst_reaches_the_registered_target. Qed.
Print Assumptions C14_href_reaches_the_registered_target.

Theorem C14_alias_is_only_a_fallback :
  forall (r : registry) from href,
    lookup (target_key from href) r = None ->
    resolve_relfirst r from href = lookup (render href) r.
Proof. exact relfirst_fallback. Qed.
Print Assumptions C14_alias_is_only_a_fallback.

Example C14_same_relative_string_from_two_directories :
  uri_relative_from_me P_d1a P_d1b = uri_relative_from_me P_d2c P_d2b /\
  resolve_relfirst REG P_d1a (uri_relative_from_me P_d1a P_d1b) = Some 2 /\
  resolve_relfirst REG P_d2c (uri_relative_from_me P_d2c P_d2b) = Some 4.
Proof. exact same_relative_string_relfirst. Qed.

Example C14_same_relative_string_rawfirst_refuted :
  resolve_rawfirst REG P_d2c (uri_relative_from_me P_d2c P_d2b) = Some 2.
Proof. exact same_relative_string_rawfirst_refuted. Qed.
