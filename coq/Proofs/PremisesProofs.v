(* Reflection: the boolean deciders of Model/Premises.v imply the Prop premises of the kernel theorems. *)
From Coq Require Import ZArith List Bool Arith Lia.
From PyecoreV Require Import Lib.PyBase Lib.PyList Model.Kernel Model.KernelIO Model.Premises
  Proofs.KernelFacts Proofs.C01Proofs Proofs.C01Full Proofs.WFBase Proofs.C19Once Proofs.C07Full Proofs.OwnAll.
Import ListNotations.
Open Scope nat_scope.

Lemma fd_overflow m (f : fid) : length (feats m) <= f -> fd m f = dummy_f.
Proof. intros H. unfold fd. apply nth_overflow. exact H. Qed.

Lemma all_fids_at m P (f : fid) : all_fids m P = true -> f < length (feats m) -> P f = true.
Proof.
  unfold all_fids. intros H Hf. rewrite forallb_forall in H. apply H. apply in_seq. lia.
Qed.

(* a statement that is trivial on the dummy declaration holds everywhere once it holds inside the table *)
Lemma everywhere m P (Q : fid -> Prop) :
  all_fids m P = true ->
  (forall f, fd m f = dummy_f -> Q f) ->
  (forall f, P f = true -> Q f) ->
  forall f, Q f.
Proof.
  intros Ha Hd Hp f. destruct (Nat.lt_ge_cases f (length (feats m))) as [Hlt|Hge].
  - apply Hp. apply (all_fids_at m P f Ha Hlt).
  - apply Hd. apply fd_overflow. exact Hge.
Qed.

Lemma wf_mm_at_spec m (f : fid) : wf_mm_at m f = true ->
  (forall g, f_opp (fd m f) = Some g ->
     f_opp (fd m g) = Some f /\ f_isref (fd m f) = true /\
     (f_cont (fd m f) = true -> f_many (fd m g) = false /\ f_cont (fd m g) = false)) /\
  (f_cont (fd m f) = true -> f_isref (fd m f) = true) /\
  (f_many (fd m f) = true -> (f_opp (fd m f) <> None \/ f_cont (fd m f) = true) -> f_unique (fd m f) = true).
Proof.
  unfold wf_mm_at. intros H. apply andb_prop in H. destruct H as [H1 H2].
  destruct (f_opp (fd m f)) as [g|] eqn:Eo.
  - repeat (match type of H1 with (_ && _ = true) => apply andb_prop in H1; let A := fresh "A" in destruct H1 as [H1 A] end).
    destruct (f_opp (fd m g)) as [f'|] eqn:Eg; [|discriminate].
    match goal with A : (f' =? f) = true |- _ => apply Nat.eqb_eq in A; subst f' end.
    split; [|split].
    + intros g' Eg'. inversion Eg'; subst g'. split; [exact Eg|]. split; [assumption|].
      intros Hc. rewrite Hc in *. cbn [implb] in *.
      match goal with A : negb _ && negb _ = true |- _ => apply andb_prop in A; destruct A as [B1 B2] end.
      apply negb_true_iff in B1. apply negb_true_iff in B2. split; assumption.
    + intros Hc. rewrite Hc in H2. exact H2.
    + intros Hm _. match goal with A : implb (f_many _) _ = true |- _ => rewrite Hm in A; exact A end.
  - split; [|split].
    + intros g Hg. discriminate.
    + intros Hc. rewrite Hc in H2. exact H2.
    + intros Hm [Hn|Hc]; [congruence|]. rewrite Hm, Hc in H1. exact H1.
Qed.

Theorem wf_mmb_sound m : wf_mmb m = true -> wf_mm m.
Proof.
  intros H. unfold wf_mmb in H.
  assert (A : forall f,
     (forall g, f_opp (fd m f) = Some g ->
        f_opp (fd m g) = Some f /\ f_isref (fd m f) = true /\
        (f_cont (fd m f) = true -> f_many (fd m g) = false /\ f_cont (fd m g) = false)) /\
     (f_cont (fd m f) = true -> f_isref (fd m f) = true) /\
     (f_many (fd m f) = true -> (f_opp (fd m f) <> None \/ f_cont (fd m f) = true) -> f_unique (fd m f) = true)).
  { apply (everywhere m (wf_mm_at m)); [exact H | | apply wf_mm_at_spec].
    intros f E. rewrite E. cbn. split; [|split]; intros; discriminate. }
  constructor.
  - intros f g E. apply (proj1 (A f) g E).
  - intros f g E. apply (proj1 (A f) g E).
  - intros f. apply (proj1 (proj2 (A f))).
  - intros f. apply (proj2 (proj2 (A f))).
  - intros f g E Hc. apply (proj2 (proj2 (proj1 (A f) g E)) Hc).
Qed.

Theorem ref_defaults_noneb_sound m : ref_defaults_noneb m = true -> ref_defaults_none m.
Proof.
  intros H. unfold ref_defaults_noneb in H. unfold ref_defaults_none.
  apply (everywhere m _ (fun f => f_isref (fd m f) = true -> f_many (fd m f) = false -> f_default (fd m f) = VNone) H).
  - intros f E. rewrite E. cbn. discriminate.
  - intros f Hp Hr Hm. rewrite Hr, Hm in Hp. cbn in Hp. destruct (f_default (fd m f)); try discriminate. reflexivity.
Qed.

Theorem wf_typedb_sound m : wf_typedb m = true -> wf_typed m.
Proof.
  intros H. unfold wf_typedb in H. unfold wf_typed.
  apply (everywhere m _ (fun f => forall g, f_opp (fd m f) = Some g ->
           g < length (feats m) /\ f_isref (fd m g) = true /\ f_type (fd m f) = TClass (f_owner (fd m g))) H).
  - intros f0 E g. rewrite E. cbn. discriminate.
  - intros f0 Hp g E. rewrite E in Hp.
    apply andb_prop in Hp. destruct Hp as [Hp H3]. apply andb_prop in Hp. destruct Hp as [H1 H2].
    apply Nat.ltb_lt in H1. repeat split; try assumption.
    unfold ftype_is_class in H3. destruct (f_type (fd m f0)); try discriminate.
    apply Nat.eqb_eq in H3. subst. reflexivity.
Qed.

Theorem no_containmentb_sound m : no_containmentb m = true -> no_containment m.
Proof.
  intros H. unfold no_containmentb in H. unfold no_containment.
  apply (everywhere m _ (fun f => f_cont (fd m f) = false) H).
  - intros f E. rewrite E. reflexivity.
  - intros f Hp. apply negb_true_iff in Hp. exact Hp.
Qed.

Theorem op_manyb_sound m o : op_manyb m o = true -> op_many m o.
Proof. destruct o; cbn; intros H; try exact I; exact H. Qed.

Theorem ops_manyb_sound m ops : forallb (op_manyb m) ops = true -> Forall (op_many m) ops.
Proof.
  intros H. apply Forall_forall. intros o Ho. apply op_manyb_sound.
  rewrite forallb_forall in H. apply H. exact Ho.
Qed.

Theorem ops_fitsb_sound m ops : forallb (op_manyb m) ops = true -> Forall (C01Full.op_fits m) ops.
Proof. exact (ops_manyb_sound m ops). Qed.

Lemma declared_cellb_sound m (x : oid) (f : fid) : declared_cellb m x f = true -> declared_cell m (x, f).
Proof.
  unfold declared_cellb, declared_cell. cbn [fst snd]. intros H Hr. rewrite Hr in H. cbn in H.
  unfold ref_feats. apply filter_In. split.
  - unfold applicable in H. apply andb_prop in H. destruct H as [H _]. apply Nat.ltb_lt in H.
    apply seqn_In. exact H.
  - rewrite H, Hr. reflexivity.
Qed.

Theorem op_applb_sound m o : op_applb m o = true -> op_appl m o.
Proof. destruct o; cbn; intros H; try exact I; apply declared_cellb_sound; exact H. Qed.

Theorem ops_applb_sound m ops : forallb (op_applb m) ops = true -> Forall (op_appl m) ops.
Proof.
  intros H. apply Forall_forall. intros o Ho. apply op_applb_sound.
  rewrite forallb_forall in H. apply H. exact Ho.
Qed.

(* ---------- the theorems restated on the boolean premises the harness evaluates per case ---------- *)
From PyecoreV Require Import Proofs.WFCorollaries.

Theorem checked_WF m ops :
  wf_mmb m = true -> ref_defaults_noneb m = true -> forallb (op_manyb m) ops = true ->
  WF m (reach m ops).
Proof.
  intros A B C. apply reach_WF; [apply wf_mmb_sound; exact A | apply ref_defaults_noneb_sound; exact B
                               | apply ops_manyb_sound; exact C].
Qed.

Theorem checked_sym m ops :
  wf_mmb m = true -> ref_defaults_noneb m = true -> forallb (op_manyb m) ops = true ->
  sym m (reach m ops).
Proof. intros A B C. apply (wf_sym _ _ (checked_WF m ops A B C)). Qed.
